#!/usr/bin/env python3
"""Keeps DESIGN.md's "As built" table in step with what the checks measured.

  python3 gen_asbuilt.py --record   fold the current evidence/*.json (whatever tier each
                                    file is from) into asbuilt.json, keyed by id and tier
  python3 gen_asbuilt.py --write    rewrite the table between the ASBUILT markers of
                                    DESIGN.md from asbuilt.json

Nothing here decides a property; it only copies measured numbers into prose."""
import glob, json, os, re, sys

HERE = os.path.dirname(os.path.abspath(__file__))
STORE = os.path.join(HERE, "asbuilt.json")


def load():
    return json.load(open(STORE)) if os.path.exists(STORE) else {}


def record():
    store = load()
    for f in sorted(glob.glob(os.path.join(HERE, "evidence", "C*.json"))):
        d = json.load(open(f))
        cov = d["coverage"]
        parts = []
        for p in cov.get("parts", []):
            parts.append({
                "engine": p.get("engine"), "part": p.get("part"),
                "states": p.get("states"), "transitions": p.get("transitions"),
                "evaluations": p.get("evaluations"), "distinct": p.get("distinct"),
                "bound": (p.get("detail") or {}).get("depth_bound"),
                "max_depth": (p.get("detail") or {}).get("max_depth"),
                "closed": p.get("exhaustive_within_bound"), "cap_hit": p.get("cap_hit"),
                "wall_s": round(p.get("wall_s") or 0, 1),
            })
        store.setdefault(d["property_id"], {})[d["tier"]] = {
            "wall_s": round(d["wall_s"], 1), "states": cov.get("states"),
            "transitions": cov.get("transitions"), "evaluations": cov.get("evaluations"),
            "distinct_nontrivial": cov.get("distinct_nontrivial"),
            "traces_validated_against_impl": cov.get("traces_validated_against_impl"),
            "exhaustive": cov.get("exhaustive"), "parts": parts,
        }
    json.dump(store, open(STORE, "w"), indent=1, sort_keys=True)
    print("recorded", sum(len(v) for v in store.values()), "tier summaries")


def n(x):
    return "-" if x is None else f"{x:,}".replace(",", " ")


def cell(t):
    if not t:
        return "(not recorded)"
    engines = {}
    for p in t["parts"]:
        engines.setdefault(p["engine"], []).append(p)
    bits = []
    for e, ps in sorted(engines.items()):
        st = sum(p["states"] or 0 for p in ps)
        ev = sum(p["evaluations"] or 0 for p in ps)
        ds = [p["bound"] for p in ps if p["bound"] is not None]
        depth = f", depth {min(ds)}-{max(ds)}" if ds and min(ds) != max(ds) else (f", depth {ds[0]}" if ds else "")
        caps = [p["part"] for p in ps if p["cap_hit"]]
        bits.append(f"{e}: {len(ps)} parts{depth}, {n(st)} states, {n(ev)} evaluations" + (f", CAP HIT in {caps}" if caps else ""))
    return "; ".join(bits) + f" ({t['wall_s']} s)"


def write():
    store = load()
    rows = ["| id | parts (by engine) | quick: measured | thorough: measured |", "|---|---|---|---|"]
    for pid in sorted(store):
        q, th = store[pid].get("quick"), store[pid].get("thorough")
        names = []
        for p in (th or q)["parts"]:
            names.append(p["part"])
        short = ", ".join(names[:6]) + (f", … ({len(names)} in all)" if len(names) > 6 else "")
        rows.append(f"| {pid} | {short} | {cell(q)} | {cell(th)} |")
    # every part by name (the table above abbreviates): quick tier, then parts only the thorough tier has
    rows.append("")
    rows.append("All parts by name (q = quick tier, t = thorough tier only):")
    rows.append("")
    for pid in sorted(store):
        q = [p["part"] for p in (store[pid].get("quick") or {}).get("parts", [])]
        th = [p["part"] for p in (store[pid].get("thorough") or {}).get("parts", []) if p["part"] not in q]
        rows.append(f"* {pid} q: " + ", ".join(f"`{x}`" for x in q) + (" ; t: " + ", ".join(f"`{x}`" for x in th) if th else ""))
    table = "\n".join(rows)
    path = os.path.join(HERE, "DESIGN.md")
    s = open(path).read()
    new, k = re.subn(r"(<!-- ASBUILT-BEGIN -->\n).*?(\n?<!-- ASBUILT-END -->)", lambda m: m.group(1) + table + "\n<!-- ASBUILT-END -->", s, flags=re.S)
    if k != 1:
        sys.exit("ASBUILT markers not found in DESIGN.md")
    open(path, "w").write(new)
    print("table rewritten")


if __name__ == "__main__":
    if "--record" in sys.argv:
        record()
    if "--write" in sys.argv:
        write()
