#!/bin/sh
# One-time setup after a fresh restore: build the harness offline.
VERIF_DIR="$(cd "$(dirname "$0")" && pwd)"
export CARGO_NET_OFFLINE=true
mkdir -p "$VERIF_DIR/target" "$VERIF_DIR/evidence" "$VERIF_DIR/replays"
cd "$VERIF_DIR/mc" || exit 1
cp /repo/Cargo.lock Cargo.lock
# a restored target directory may have been copied in the middle of a build: rebuild this
# crate's own artefacts from scratch (the dependencies are kept)
cargo clean --release --offline -p simple-irc-server 2>/dev/null
rm -rf "$VERIF_DIR/target/release/incremental"
cargo build --release --offline 2>&1 | tail -3
test -x "$VERIF_DIR/target/release/mc"
