#!/usr/bin/env python3
"""Regenerates MANIFEST.json from the table below (keeps it schema-valid)."""
import json, subprocess

HOOK_COMMITS = subprocess.run(
    ["git", "-C", "/repo", "log", "--format=%h %s", "--grep=verif hook"],
    capture_output=True, text=True).stdout.strip().splitlines()

# property -> (engine, technique, design_ref, level text, level note)
ESEQ = "explicit-state BFS over the real server (histories replayed on the real connection tasks, canonical-state dedup), one-step reference model as oracle"
EFUN = "bounded-exhaustive enumeration of a finite input space through the real code, compared with a reference"
NOTE = "Trusts the Spec's transcription of the statement and the additive snapshot/gate hooks; bounded participants, alphabet and depth (reported in the evidence); wall-clock fields masked; true multi-core overlap is C18's business."
CLAIMED = {
 "C01": ("E-SEQ", ESEQ + "; PRIVMSG/NOTICE probe battery in every reachable state; plus a bounded-exhaustive sweep of line lengths up to the limit", "DESIGN.md §4 C01",
         "Every history of joins/parts/kicks/nick and rank changes/quits up to the depth bound is executed; in every reachable state every user sends PRIVMSG/NOTICE to channel, nick, own nick, comma lists with duplicates and missing names, status-prefixed targets; the deliveries on every socket are compared with the Spec audience (exactly one copy, exact prefix/target/text, nothing elsewhere); messages whose line fills the 2000-byte limit arrive whole. Bounded exhaustive.", NOTE),
 "C04": ("E-SEQ", ESEQ + "; view-agreement (NAMES/WHO/WHOIS) and roster-reconstruction oracles; plus bounded-exhaustive sweeps of roster sizes around the NAMES chunk size, names at the advertised length limits and many queued announcements", "DESIGN.md §4 C04",
         "Every history up to the depth bound of JOIN/PART/KICK/NICK/QUIT/EOF by 3 users + an outsider over 2 channels is executed on the real handlers; in every reachable state NAMES/WHO/WHOIS from every viewpoint are compared with each other and the roster, every announcement with the Spec, and each client's roster is rebuilt from JOIN-time NAMES + announcements.", NOTE),
 "C05": ("E-SEQ", EFUN + " (line grammar x session states) driven through the E-SEQ engine at depth 1-2", "DESIGN.md §4 C05",
         "A bounded-exhaustive line grammar (43 verbs x arity 0..max+1 x parameter-shape menus, raw byte payloads, EOF variants) is sent through the real connection loop in 10 session states (thorough: full menus and all ordered pairs of a core alphabet); after every input no task may have aborted, no connection may be closed unless the protocol ends it, and sender and bystanders must still be served.", NOTE),
 "C07": ("E-SEQ+E-FUN", ESEQ + "; plus product sweep of admission conditions in fresh worlds", "DESIGN.md §4 C07",
         "The full product of admission conditions (key, supplied key, ban, exception, +i, invitation, invite-exception, limit, quota, membership) and an E-SEQ search with evolving lists; each JOIN is judged against the statement's iff on the Spec state with a reference glob (refusal: nothing changes, matching numeric; acceptance: member, invitation consumed, announced).", NOTE),
 "C08": ("E-SEQ+E-FUN", ESEQ + "; plus privilege-matrix sweep", "DESIGN.md §4 C08",
         "Privilege matrix actor rank x letter x sign x target rank (and flag/list/key/limit letters, composite strings) in fresh worlds, and reachability search with 3 members; refused letters leave the channel as it was (482/442), accepted ones are applied, announced to all members (effective <= announced <= permitted), shown by MODE/NAMES/list queries and enforced by JOIN/PRIVMSG/TOPIC/KICK/INVITE.", NOTE),
 "C09": ("E-SEQ+E-FUN", ESEQ + "; plus rank-matrix sweep in fresh worlds and a sweep of topic lengths", "DESIGN.md §4 C09",
         "Every history up to the bound of rank changes, KICK (single, lists, self, absent), TOPIC (set/clear/colon text), INVITE (present/absent/unknown) and JOIN-by-invitation over founder + 2 members + outsider; Spec rank rules; refusal effect-free with the right numeric; announcements to exactly the right sockets; TOPIC/LIST probes in every state.", NOTE),
 "C10": ("E-SEQ", ESEQ + "; PRIVMSG/NOTICE probes in every state", "DESIGN.md §4 C10",
         "Every history up to the bound of +n/+m/+s, ban/exception of the sender's mask, voice, sender JOIN/PART/NICK and recipient AWAY; in every state PRIVMSG and NOTICE probes; deliver iff the statement's conjunction, 404 otherwise, NOTICE never answered, 301 with the away text.", NOTE),
 "C14": ("E-FUN", EFUN + " (recursive/DP glob, three completion rules); wire conformance per caller", "DESIGN.md §4 C14",
         "Every mask up to length L over {a,b,*,?} against every text up to length L over {a,b,é} through the real match_wildcard (each call under catch_unwind) vs a reference glob; every string <=6 over {n,!,@,*} through normalize_sourcemask; every short mask for 8 callers (+b,+e,+I, speaking, WHO, WHOIS, operator mask, user mask) x 4 identities in a real server world.", NOTE),
 "C15": ("E-SEQ", ESEQ + "; rename-differential on the whole abstract state", "DESIGN.md §4 C15",
         "Every history up to the bound in which a user accumulates channels, ranks, modes, away, operator status and invitations and then changes nick to free/own/taken/claimed/released/invalid names; the post-state must equal the pre-state with old->new substituted in every nick-keyed container; NICK announced to the user and all channel peers; refusal effect-free.", NOTE),
 "C16": ("E-SEQ+E-FUN", ESEQ + "; plus configuration-lattice sweep for predefined channels", "DESIGN.md §4 C16",
         "Every history up to the bound in which channels are created, configured, emptied by PART/KICK/QUIT/EOF/KILL and re-created (fresh-channel oracle, absence after last exit); every subset of 16 settings of a predefined channel (quick: small and large subsets) through a join/leave/re-join script.", NOTE),
}
CLAIMED["C02"] = ("E-SEQ", ESEQ + "; ownership bijection in every state, attribution/reachability after every step", "DESIGN.md §4 C02",
    "Every history up to the bound of 2-3 connections contending for nicknames x/y/z (NICK/USER/PASS/CAP/QUIT/EOF, acts by registered and by unregistered or refused connections) next to a registered witness; a refused or incomplete registration changes nothing; users <-> owning connections is a bijection in every state; every owner stays reachable and speaks under its own prefix after every step.", NOTE)
CLAIMED["C03"] = ("E-SEQ", ESEQ + "; 7 configurations; gated-command battery in every pre-registration state", "DESIGN.md §4 C03",
    "For 7 password/user/mask configurations every order and repetition of PASS/NICK/USER/CAP/AUTHENTICATE/QUIT up to the bound on a fresh connection; in every pre-registration state 30 gated commands must each get exactly 451 and change/reveal nothing; 001 iff the Spec registration machine completes; wrong/missing password => 464, closed, no user.", NOTE)
CLAIMED["C06"] = ("E-SEQ", ESEQ + "; erase-differential; endings injected in every reachable state incl. virtual-clock ping timeouts and a KILL raced against an in-flight line", "DESIGN.md §4 C06",
    "In every reachable state of a victim's history (memberships, ranks, +i/+w, away, operator, invitations both ways) the session ends by QUIT, EOF, EOF mid-line, invalid bytes, KILL (also raced), ping timeout (alone / several at once); the post-state must equal the pre-state with the user erased and nothing else changed; counter = live connections; survivors' views forget the user, WHOWAS keeps it, the nick re-registers at once.", NOTE)
CLAIMED["C11"] = ("E-SEQ", ESEQ + "; 12 operator/default-mode configurations", "DESIGN.md §4 C11",
    "Per configuration every sequence up to the bound of OPER (right/wrong), MODE on own/foreign nicks with o/O/w/i and sign switches, NICK to/from the configured operator name, KILL/WALLOPS/STATS/DIE/SQUIT from every privilege level; the operator flag changes only as the statement allows, privileged commands act only for operators and exactly as stated.", NOTE)
CLAIMED["C19"] = ("E-SEQ", ESEQ + "; LUSERS/ISON/USERHOST probes in every state; connection-slot scenario per max_connections", "DESIGN.md §4 C19",
    "Every history up to the bound of registrations, +-i, OPER (repeated), -o/-O, AWAY, NICK, JOIN/PART, QUIT/EOF/KILL with LUSERS/ISON/USERHOST compared with recounts in every state; for max_connections 1..3 every pattern of connect/register/wrong password/invalid bytes/QUIT/EOF/KILL: never more than max served, counter = live connections, freed slots are served again.", NOTE)
CLAIMED["C12"] = ("E-SEQ", "two-world (non-interference) explicit-state BFS: every reachable state is re-created in a second real server world with the hidden part deleted and the observer's query battery must be answered identically", "DESIGN.md §4 C12",
    "Every history up to the bound in which a secret channel / an invisible user comes into being; in every state where the hiding condition holds the observer's LIST/NAMES/WHO/WHOIS queries (names, comma lists, wildcard masks, no argument) are answered identically in the world with and the world without the hidden part; messages into the secret channel reach nobody.", NOTE)
CLAIMED["C13"] = ("E-FUN", EFUN + " (RFC tokenizer, arity table); segmentation/limit sweep of the codec; relay round trip, surplus-parameter and invalid-parameter differentials in real worlds", "DESIGN.md §4 C13",
    "All strings up to length L over {A,a,space,:,comma,#} through the real parser vs a reference tokenizer; 41 verbs x letter case x arity through Command::from_message and on the wire (461/421); a 3-line payload at every 1- and 2-cut segmentation, lines around the 2000-byte limit, blank lines; every relayed verb with every short text over {a,space,:} re-parsed at the receiver.", NOTE)
CLAIMED["C17"] = ("E-SEQ", ESEQ + " with a virtual (paused tokio) clock driving the server's real timer tasks; 9 timeout configurations; plus a sweep of PING token lengths up to the line limit", "DESIGN.md §4 C17",
    "For every (ping_timeout, pong_timeout) in {1,2,3}^2 every client response pattern up to the horizon (per virtual second: silence, PONG right/wrong token, PING tok, other traffic): server PINGs on schedule, a client without an unanswered PING is never dropped, a silent one is sent ERROR and dropped within pong_timeout (+1 s) of the first unanswered PING and not before, and leaves no trace.", NOTE)
CLAIMED["C18"] = ("E-INT", "stateless exhaustive schedule search (DFS by re-execution, optional preemption bound) over the real connection futures stepped one tokio synchronisation operation at a time; linearizability against sequential runs of the same code", "DESIGN.md §3.2, §4 C18",
    "For every burst of the registered list (2-3 connections, 1-3 commands each; the evidence names them) every interleaving at the granularity of single tokio synchronisation operations (lock acquisitions, socket reads, flushes, the password-check yield) is executed on the real code; each outcome (final state, ordered replies per connection, ordered relays per sender/receiver pair, who is registered/closed) must equal the outcome of some sequential execution; plus representation invariants, deadlock detection and a PING liveness round.", "Single-threaded stepping covers multi-threaded executions up to Lipton reduction (every shared access is inside a tokio lock section, an atomic or an mpsc send); memory-ordering effects not modelled (all atomics SeqCst); bursts are small (<= 3 connections, <= 3 commands each).")
CLAIMED["C20"] = ("E-FUN", EFUN + " (validity predicate over a configuration lattice); liveness of every documented key; hash/verify pairs; welcome-burst conformance in real worlds", "DESIGN.md §4 C20",
    "The full product of per-field validity menus x 11 command-line variants (33 792 configurations) through the real Cli/MainConfig::new; every leaf key of config-example.toml shown to be live; 20x20 password pairs through hash/verify; 288 valid configurations on the wire (welcome burst, default modes, max_joins, server password).", "Quick tier: start-up failure is observed as MainConfig::new returning Err, which main() propagates before run_server. Thorough tier adds the production binary itself (start-up exit codes, -g) and the TLS-on/TLS-off transcript comparison over loopback with a rustls client trusting test_data/cert.crt; these need loopback sockets.")
PENDING = {}

def main():
    props = [json.loads(l)["id"] for l in open("/verif/properties.jsonl")]
    checks = []
    for pid in props:
        if pid in CLAIMED:
            eng, tech, ref, text, note = CLAIMED[pid]
            checks.append({
                "property_id": pid,
                "quick_cmd": f"./check {pid} quick",
                "thorough_cmd": f"./check {pid} thorough",
                "evidence_file": f"/verif/evidence/{pid}.json",
                "replay_cmd_template": "./check replay {path}",
                "engine": eng,
                "level_claimed": {"category": "model_checking", "text": text, "design_ref": ref},
                "level_note": note,
                "technique": tech,
            })
    na = [{"property_id": p, "reason": PENDING.get(p, "check not built yet in this round (work in progress; model checking applies, see DESIGN.md §4)")}
          for p in props if p not in CLAIMED]
    man = {
        "version": 1,
        "setup_cmd": "./setup.sh",
        "hooks": {
            "guard": "--cfg simple_irc_server_verif",
            "enable": "RUSTFLAGS-equivalent in /verif/mc/.cargo/config.toml: build.rustflags = [\"--cfg\", \"simple_irc_server_verif\"]; the harness crate includes /repo/src/*.rs via #[path]",
            "baseline_off_cmd": "/verif/baseline_off.sh",
            "source_commits": [c.split()[0] for c in HOOK_COMMITS],
            "add_only": True,
        },
        "engines": [
            {"name": "E-INT", "path": "/verif/mc/src/dfs.rs", "serves_properties": ["C18"],
             "kind_free_text": "stateless schedule enumeration of real connection futures: the tokio cooperative budget is burnt to one unit before each poll so every poll performs at most one synchronisation operation; custom wakers detect lock hand-over; all schedules of a burst are enumerated by re-execution"},
            {"name": "E-BIND", "path": "/verif/mc/src/bind.rs", "serves_properties": ["C02", "C04", "C20"],
             "kind_free_text": "thorough tier only: every history up to a small depth of an E-SEQ scenario replayed over loopback TCP (and TLS) against the production binary built from /repo WITHOUT the verification cfg; canonical transcripts must equal those of the in-memory hooked run"},
            {"name": "E-FUN", "path": "/verif/mc/src/fun.rs", "serves_properties": [p for p in props if p in CLAIMED and "E-FUN" in CLAIMED[p][0]],
             "kind_free_text": "bounded-exhaustive enumeration of finite input spaces (strings over small alphabets, configuration lattices, products of conditions) through the real functions or one-step real server worlds"},
            {"name": "E-SEQ", "path": "/verif/mc/src/bfs.rs", "serves_properties": [p for p in props if p in CLAIMED and CLAIMED[p][0].startswith("E-SEQ")],
             "kind_free_text": "explicit-state breadth-first search whose transition function is the real connection task (user_state_process) polled by hand over in-memory streams; one-step reference model as oracle"},
        ],
        "checks": checks,
        "notes": "All checks rebuild /verif/mc (which compiles /repo/src via #[path]) on every invocation. Exit 2 = machinery failure, never a verdict.",
        "not_applicable": na,
    }
    json.dump(man, open("/verif/MANIFEST.json", "w"), indent=1)
    print("claimed:", [c["property_id"] for c in checks])

if __name__ == "__main__":
    main()
