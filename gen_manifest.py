#!/usr/bin/env python3
"""Regenerates MANIFEST.json from the table below (keeps it schema-valid)."""
import json, subprocess

HOOK_COMMITS = subprocess.run(
    ["git", "-C", "/repo", "log", "--format=%h %s", "--grep=verif hook"],
    capture_output=True, text=True).stdout.strip().splitlines()

# property -> (engine, technique, design_ref, level text, level note)
CLAIMED = {
 "C04": ("E-SEQ", "explicit-state BFS over the real server (replay-from-root, canonical state dedup) with a one-step reference model and view-agreement oracle",
         "DESIGN.md §4 C04",
         "Every history up to the depth bound of JOIN/PART/KICK/NICK/QUIT/EOF by 3 users + an outsider over 2 channels is executed on the real handlers; in every reachable state NAMES/WHO/WHOIS from every viewpoint are compared with each other and the roster, and every announcement with the Spec. Bounded exhaustive, not sampled.",
         "Trusts the Spec's transcription of the statement and the snapshot hook; bounded participants/depth; true multi-core overlap not explored here (C18)."),
}
PENDING = {}

def main():
    props = [json.loads(l)["id"] for l in open("/verif/properties.jsonl")]
    checks = []
    for pid in props:
        if pid in CLAIMED:
            eng, tech, ref, text, note = CLAIMED[pid]
            checks.append({
                "property_id": pid,
                "quick_cmd": f"./check {pid} quick",
                "thorough_cmd": f"./check {pid} thorough",
                "evidence_file": f"/verif/evidence/{pid}.json",
                "replay_cmd_template": "./check replay {path}",
                "engine": eng,
                "level_claimed": {"category": "model_checking", "text": text, "design_ref": ref},
                "level_note": note,
                "technique": tech,
            })
    na = [{"property_id": p, "reason": PENDING.get(p, "check not built yet in this round (work in progress; model checking applies, see DESIGN.md §4)")}
          for p in props if p not in CLAIMED]
    man = {
        "version": 1,
        "setup_cmd": "./setup.sh",
        "hooks": {
            "guard": "--cfg simple_irc_server_verif",
            "enable": "RUSTFLAGS-equivalent in /verif/mc/.cargo/config.toml: build.rustflags = [\"--cfg\", \"simple_irc_server_verif\"]; the harness crate includes /repo/src/*.rs via #[path]",
            "baseline_off_cmd": "cd /repo && cargo test --offline --no-fail-fast",
            "source_commits": [c.split()[0] for c in HOOK_COMMITS],
            "add_only": True,
        },
        "engines": [
            {"name": "E-SEQ", "path": "/verif/mc/src/bfs.rs", "serves_properties": [p for p in props if p in CLAIMED and CLAIMED[p][0].startswith("E-SEQ")],
             "kind_free_text": "explicit-state breadth-first search whose transition function is the real connection task (user_state_process) polled by hand over in-memory streams; one-step reference model as oracle"},
        ],
        "checks": checks,
        "notes": "All checks rebuild /verif/mc (which compiles /repo/src via #[path]) on every invocation. Exit 2 = machinery failure, never a verdict.",
        "not_applicable": na,
    }
    json.dump(man, open("/verif/MANIFEST.json", "w"), indent=1)
    print("claimed:", [c["property_id"] for c in checks])

if __name__ == "__main__":
    main()
