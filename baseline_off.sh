#!/bin/sh
# Runs the repository's stable baseline (the 38 tests of /root/.vp/BASELINE.json
# "stable_pass") with the verification guard OFF (plain cargo test, no --cfg).
cd /repo || exit 2
export CARGO_NET_OFFLINE=true
exec cargo test --offline --no-fail-fast -- --exact \
  command::test::test_command_from_message \
  command::test::test_message_from_shared_str \
  command::test::test_message_to_string_with_source \
  config::test::test_channelmodes_banned \
  config::test::test_channelmodes_new_for_channel \
  config::test::test_channelmodes_rename_user \
  config::test::test_channelmodes_to_string \
  config::test::test_mainconfig_new \
  config::test::test_usermodes_to_string \
  reply::test::test_replies \
  state::structs::test::test_channel_add_remove_mode \
  state::structs::test::test_channel_default_modes_new_from_modes_and_cleanup \
  state::structs::test::test_channel_join_remove_user \
  state::structs::test::test_channel_new \
  state::structs::test::test_channel_rename_user \
  state::structs::test::test_channel_user_modes \
  state::structs::test::test_channel_user_modes_to_string \
  state::structs::test::test_conn_user_state \
  state::structs::test::test_get_privmsg_target_type \
  state::structs::test::test_user_new \
  state::structs::test::test_volatile_remove_user_from_channel \
  state::structs::test::test_volatile_state_add_remove_user \
  state::structs::test::test_volatile_state_insert_to_nick_history \
  state::structs::test::test_volatile_state_new \
  utils::test::test_argon2_verify_password_async \
  utils::test::test_irc_lines_codec \
  utils::test::test_match_wildcard \
  utils::test::test_normalize_sourcemask \
  utils::test::test_test_argon2_verify_password \
  utils::test::test_validate_channel \
  utils::test::test_validate_channelmodes \
  utils::test::test_validate_password_hash \
  utils::test::test_validate_prefixed_channel \
  utils::test::test_validate_server \
  utils::test::test_validate_server_mask \
  utils::test::test_validate_source \
  utils::test::test_validate_usermodes \
  utils::test::test_validate_username
