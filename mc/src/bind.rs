//! E-BIND: the hooked in-memory build and the production binary agree.
//!
//! Every history of a small E-SEQ scenario (up to a depth) is executed twice:
//! in the in-memory world (hooks on) and over loopback TCP against the release
//! binary of /repo built WITHOUT the verification cfg. The canonical transcripts
//! (per step, per connection, as multisets) must be equal.

use crate::bfs::{apply, build, state_key, Act, Scenario, View, Violation};
use crate::canon::canon_lines;
use crate::run::PartResult;
use crate::scn::Cfg;
use serde_json::json;
use std::collections::HashSet;
use std::io::{Read, Write};
use std::net::TcpStream;
use std::process::{Child, Command, Stdio};
use std::time::{Duration, Instant};

pub fn cfg_to_toml(cfg: &Cfg, port: u16) -> String {
    cfg_to_toml_tls(cfg, port, false)
}

pub fn cfg_to_toml_tls(cfg: &Cfg, port: u16, tls: bool) -> String {
    let mc = cfg.main_config();
    let mut s = String::new();
    s += &format!("name = \"{}\"\nadmin_info = \"{}\"\ninfo = \"{}\"\nlisten = \"127.0.0.1\"\nport = {}\nnetwork = \"{}\"\n", mc.name, mc.admin_info, mc.info, port, mc.network);
    if let Some(p) = &mc.password {
        s += &format!("password = \"{}\"\n", p);
    }
    if let Some(m) = mc.max_joins {
        s += &format!("max_joins = {}\n", m);
    }
    if let Some(m) = mc.max_connections {
        s += &format!("max_connections = {}\n", m);
    }
    s += &format!("ping_timeout = {}\npong_timeout = {}\nmotd = \"{}\"\ndns_lookup = false\nlog_level = \"ERROR\"\n", mc.ping_timeout, mc.pong_timeout, mc.motd);
    if tls {
        s += "\n[tls]\ncert_file = \"/repo/test_data/cert.crt\"\ncert_key_file = \"/repo/test_data/cert_key.crt\"\n";
    }
    let d = mc.default_user_modes;
    s += &format!("\n[default_user_modes]\ninvisible = {}\noper = {}\nlocal_oper = {}\nregistered = {}\nwallops = {}\n", d.invisible, d.oper, d.local_oper, d.registered, d.wallops);
    if let Some(ops) = &mc.operators {
        for o in ops {
            s += &format!("\n[[operators]]\nname = \"{}\"\npassword = \"{}\"\n", o.name, o.password);
            if let Some(m) = &o.mask {
                s += &format!("mask = \"{}\"\n", m);
            }
        }
    }
    if let Some(us) = &mc.users {
        for u in us {
            s += &format!("\n[[users]]\nname = \"{}\"\nnick = \"{}\"\n", u.name, u.nick);
            if let Some(p) = &u.password {
                s += &format!("password = \"{}\"\n", p);
            }
            if let Some(m) = &u.mask {
                s += &format!("mask = \"{}\"\n", m);
            }
        }
    }
    if let Some(chs) = &mc.channels {
        let list = |v: &Option<std::collections::HashSet<String>>| -> String {
            let mut x: Vec<String> = v.as_ref().map(|s| s.iter().cloned().collect()).unwrap_or_default();
            x.sort();
            format!("[ {} ]", x.iter().map(|m| format!("\"{}\"", m)).collect::<Vec<_>>().join(", "))
        };
        for c in chs {
            s += &format!("\n[[channels]]\nname = \"{}\"\n", c.name);
            if let Some(t) = &c.topic {
                s += &format!("topic = \"{}\"\n", t);
            }
            s += "\n[channels.modes]\n";
            let m = &c.modes;
            for (k, v) in [("ban", &m.ban), ("exception", &m.exception), ("invite_exception", &m.invite_exception), ("founders", &m.founders), ("protecteds", &m.protecteds), ("operators", &m.operators), ("half_operators", &m.half_operators), ("voices", &m.voices)] {
                if v.is_some() {
                    s += &format!("{} = {}\n", k, list(v));
                }
            }
            if let Some(k) = &m.key {
                s += &format!("key = \"{}\"\n", k);
            }
            if let Some(l) = m.client_limit {
                s += &format!("client_limit = {}\n", l);
            }
            s += &format!("moderated = {}\ninvite_only = {}\nsecret = {}\nprotected_topic = {}\nno_external_messages = {}\n", m.moderated, m.invite_only, m.secret, m.protected_topic, m.no_external_messages);
        }
    }
    s
}

struct Server {
    child: Child,
    port: u16,
}

impl Drop for Server {
    fn drop(&mut self) {
        let _ = self.child.kill();
        let _ = self.child.wait();
    }
}

fn start_server(bin: &str, cfg: &Cfg, port: u16, dir: &str, tls: bool) -> Option<Server> {
    let path = format!("{}/bind-{}.toml", dir, port);
    std::fs::write(&path, cfg_to_toml_tls(cfg, port, tls)).ok()?;
    let child = Command::new(bin).args(["-c", &path]).stdin(Stdio::null()).stdout(Stdio::null()).stderr(Stdio::null()).spawn().ok()?;
    let srv = Server { child, port };
    // wait until it accepts
    for _ in 0..200 {
        if let Ok(s) = TcpStream::connect(("127.0.0.1", port)) {
            drop(s);
            std::thread::sleep(Duration::from_millis(5));
            return Some(srv);
        }
        std::thread::sleep(Duration::from_millis(5));
    }
    None
}

enum Sock {
    Plain(TcpStream),
    #[cfg(feature = "tls_rustls")]
    Tls(Box<rustls::StreamOwned<rustls::ClientConnection, TcpStream>>),
}

impl Sock {
    fn set_read_timeout(&mut self, d: Duration) {
        match self {
            Sock::Plain(s) => {
                let _ = s.set_read_timeout(Some(d));
            }
            #[cfg(feature = "tls_rustls")]
            Sock::Tls(s) => {
                let _ = s.sock.set_read_timeout(Some(d));
            }
        }
    }
    fn read(&mut self, buf: &mut [u8]) -> std::io::Result<usize> {
        match self {
            Sock::Plain(s) => s.read(buf),
            #[cfg(feature = "tls_rustls")]
            Sock::Tls(s) => s.read(buf),
        }
    }
    fn write_all(&mut self, b: &[u8]) -> std::io::Result<()> {
        match self {
            Sock::Plain(s) => s.write_all(b),
            #[cfg(feature = "tls_rustls")]
            Sock::Tls(s) => {
                s.write_all(b)?;
                s.flush()
            }
        }
    }
}

#[cfg(feature = "tls_rustls")]
pub fn tls_client_config() -> Option<std::sync::Arc<rustls::ClientConfig>> {
    let f = std::fs::File::open("/repo/test_data/cert.crt").ok()?;
    let mut certs: Vec<rustls::Certificate> = rustls_pemfile::certs(&mut std::io::BufReader::new(f)).ok()?.into_iter().map(rustls::Certificate).collect();
    let mut store = rustls::RootCertStore { roots: vec![] };
    store.add(&certs.remove(0)).ok()?;
    Some(std::sync::Arc::new(rustls::ClientConfig::builder().with_safe_defaults().with_root_certificates(store).with_no_client_auth()))
}

fn connect(port: u16, tls: bool) -> Option<Sock> {
    let s = TcpStream::connect(("127.0.0.1", port)).ok()?;
    let _ = s.set_nodelay(true);
    if !tls {
        return Some(Sock::Plain(s));
    }
    #[cfg(feature = "tls_rustls")]
    {
        use std::convert::TryFrom;
        let cfg = tls_client_config()?;
        let name = rustls::client::ServerName::try_from("localhost").ok()?;
        let conn = rustls::ClientConnection::new(cfg, name).ok()?;
        let _ = s.set_read_timeout(Some(Duration::from_millis(2000)));
        let mut st = rustls::StreamOwned::new(conn, s);
        // complete the handshake now
        while st.conn.is_handshaking() {
            if st.conn.complete_io(&mut st.sock).is_err() {
                return None;
            }
        }
        return Some(Sock::Tls(Box::new(st)));
    }
    #[allow(unreachable_code)]
    None
}

struct Client {
    sock: Option<Sock>,
    buf: Vec<u8>,
    eof: bool,
}

impl Client {
    fn read_available(&mut self, quiet: Duration) -> Vec<String> {
        let mut out = vec![];
        let sock = match self.sock.as_mut() {
            Some(s) => s,
            None => return out,
        };
        sock.set_read_timeout(quiet);
        let mut tmp = [0u8; 8192];
        loop {
            match sock.read(&mut tmp) {
                Ok(0) => {
                    self.eof = true;
                    break;
                }
                Ok(n) => self.buf.extend_from_slice(&tmp[..n]),
                Err(_) => break,
            }
        }
        while let Some(pos) = self.buf.iter().position(|b| *b == b'\n') {
            let mut line: Vec<u8> = self.buf.drain(..=pos).collect();
            line.pop();
            if line.last() == Some(&b'\r') {
                line.pop();
            }
            out.push(String::from_utf8_lossy(&line).into_owned());
        }
        out
    }
}

/// Execute one history over TCP; returns per step per connection lines.
fn run_tcp(bin: &str, cfg: &Cfg, slots: usize, prelude: &[Act], hist: &[Act], port: u16, dir: &str, tls: bool) -> Option<Vec<Vec<Vec<String>>>> {
    let srv = start_server(bin, cfg, port, dir, tls)?;
    let mut clients: Vec<Client> = (0..slots).map(|_| Client { sock: None, buf: vec![], eof: false }).collect();
    let mut out = vec![];
    let quiet = Duration::from_millis(25);
    let all: Vec<(bool, &Act)> = prelude.iter().map(|a| (false, a)).chain(hist.iter().map(|a| (true, a))).collect();
    let mut drained_prelude = false;
    let n_prelude = prelude.len();
    for (k, (record, a)) in all.into_iter().enumerate() {
        if k == n_prelude {
            // everything the prelude produced is consumed before recording starts
            for _round in 0..2 {
                for c in clients.iter_mut() {
                    let _ = c.read_available(quiet);
                }
            }
        }
        match a {
            Act::Connect(i) => {
                let s = connect(srv.port, tls)?;
                clients[*i] = Client { sock: Some(s), buf: vec![], eof: false };
            }
            Act::Send(i, l) => {
                if let Some(s) = clients[*i].sock.as_mut() {
                    let _ = s.write_all(format!("{}\r\n", l).as_bytes());
                }
            }
            Act::Eof(i) => {
                clients[*i].sock = None;
            }
            _ => return None,
        }
        if !record {
            // prelude: only the acting client is read, briefly
            if let Some(i) = a.actor() {
                let _ = clients[i].read_available(Duration::from_millis(12));
            }
            continue;
        }
        if !drained_prelude {
            drained_prelude = true;
        }
        // quiescence: read everybody until quiet (twice, relays may trail)
        let mut step: Vec<Vec<String>> = vec![vec![]; slots];
        for _round in 0..2 {
            for (i, c) in clients.iter_mut().enumerate() {
                step[i].extend(c.read_available(quiet));
            }
        }
        out.push(step);
    }
    Some(out)
}

/// Execute one history in the in-memory world; same shape of result.
fn run_mem(scn: &dyn Scenario, hist: &[Act]) -> Option<Vec<Vec<Vec<String>>>> {
    let mut w = build(scn, &[]).ok()?;
    let mut out = vec![];
    for a in hist {
        apply(&mut w, a).ok()?;
        out.push(w.take_all());
    }
    Some(out)
}

/// Enumerate histories (one per transition of a BFS to `depth`).
fn histories(scn: &dyn Scenario, depth: usize, cap: usize) -> Vec<Vec<Act>> {
    let mut out = vec![];
    let mut seen: HashSet<u128> = HashSet::new();
    let mut frontier: Vec<Vec<Act>> = vec![vec![]];
    if let Ok(mut w) = build(scn, &[]) {
        seen.insert(state_key(scn, &mut w));
    }
    for _d in 0..depth {
        let mut next = vec![];
        for h in &frontier {
            let mut w = match build(scn, h) {
                Ok(w) => w,
                Err(_) => continue,
            };
            let v = View::of(&mut w, h.len());
            for a in scn.actions(&v) {
                if !matches!(a, Act::Connect(_) | Act::Send(_, _) | Act::Eof(_)) {
                    continue;
                }
                let mut h2 = h.clone();
                h2.push(a);
                if let Ok(mut w2) = build(scn, &h2) {
                    out.push(h2.clone());
                    if seen.insert(state_key(scn, &mut w2)) {
                        next.push(h2);
                    }
                }
                if out.len() >= cap {
                    return out;
                }
            }
        }
        frontier = next;
    }
    out
}

/// `prelude_acts`: the scenario's prelude expressed as actions (for the TCP side).
pub fn run_bind(name: &str, scn: &dyn Scenario, cfg: &Cfg, prelude_acts: &[Act], depth: usize, cap: usize, bin: &str, dir: &str) -> PartResult {
    let t0 = Instant::now();
    let mut r = PartResult::new(name, "E-BIND");
    if !std::path::Path::new(bin).exists() {
        r.machinery = Some(format!("production binary {} not built", bin));
        return r;
    }
    let hs = histories(scn, depth, cap);
    let server = cfg.name.clone().unwrap_or_else(|| "irc.irc".into());
    let n = hs.len();
    let threads = crate::props::threads().min(8);
    let results: Vec<(usize, Option<String>)> = {
        let idx = std::sync::atomic::AtomicUsize::new(0);
        let out = std::sync::Mutex::new(vec![]);
        std::thread::scope(|s| {
            for t in 0..threads {
                let idx = &idx;
                let out = &out;
                let hs = &hs;
                let server = &server;
                s.spawn(move || loop {
                    let i = idx.fetch_add(1, std::sync::atomic::Ordering::SeqCst);
                    if i >= n {
                        break;
                    }
                    let port = 21000 + (t as u16) * 600 + (i % 500) as u16;
                    let mem = run_mem(scn, &hs[i]);
                    let mut tcp = run_tcp(bin, cfg, scn.slots(), prelude_acts, &hs[i], port, dir, false);
                    if tcp.is_none() {
                        // one retry on another port (lingering sockets, busy machine)
                        tcp = run_tcp(bin, cfg, scn.slots(), prelude_acts, &hs[i], port + 7000, dir, false);
                    }
                    let verdict = match (mem, tcp) {
                        (Some(m), Some(t)) => {
                            let mut diff = None;
                            for (k, (ms, ts)) in m.iter().zip(t.iter()).enumerate() {
                                for c in 0..ms.len().min(ts.len()) {
                                    let a = canon_lines(server, &ms[c]);
                                    let b = canon_lines(server, &ts[c]);
                                    if a != b {
                                        diff = Some(format!("step {} connection {}: in-memory {:?} vs TCP {:?}", k, c, ms[c], ts[c]));
                                        break;
                                    }
                                }
                                if diff.is_some() {
                                    break;
                                }
                            }
                            diff
                        }
                        (None, _) => Some("in-memory run failed".into()),
                        (_, None) => Some("machinery: TCP run could not be set up".into()),
                    };
                    out.lock().unwrap().push((i, verdict));
                });
            }
        });
        out.into_inner().unwrap()
    };
    let mut setup_fail = 0;
    for (i, v) in results {
        if let Some(d) = v {
            if d.starts_with("machinery") {
                setup_fail += 1;
                continue;
            }
            if r.violations.len() < 10 {
                r.violations.push(Violation { scenario: name.to_string(), sig: "bind:transcripts-differ".into(), detail: d, history: hs[i].clone(), transcript: vec![] });
            }
        }
    }
    r.evaluations = n as u64;
    r.states = n as u64;
    r.transitions = hs.iter().map(|h| h.len() as u64).sum();
    r.distinct = n as u64;
    r.traces = (n - setup_fail) as u64;
    r.exhaustive = setup_fail == 0;
    if setup_fail > 0 {
        r.cap = Some(format!("{} of {} histories could not be run over TCP (loopback/port trouble)", setup_fail, n));
    }
    if setup_fail == n && n > 0 {
        r.machinery = Some("no history could be run over TCP (cannot bind loopback?)".into());
    }
    r.samples = hs.iter().take(2).map(|h| json!(h.iter().map(|a| a.render()).collect::<Vec<_>>())).collect();
    r.extra = json!({"histories": n, "depth": depth, "binary": bin, "tcp_setup_failures": setup_fail});
    r.wall_s = t0.elapsed().as_secs_f64();
    r
}

/// C20 (d): enabling TLS changes the transport only. Every history is run over
/// plain TCP against the binary started without [tls] and over TLS against the
/// same binary started with [tls]; transcripts must be equal except for
/// RPL_WHOISSECURE (671).
pub fn run_tls_compare(name: &str, scn: &dyn Scenario, cfg: &Cfg, prelude_acts: &[Act], depth: usize, cap: usize, bin: &str, dir: &str) -> PartResult {
    let t0 = Instant::now();
    let mut r = PartResult::new(name, "E-BIND");
    if !std::path::Path::new(bin).exists() {
        r.machinery = Some(format!("TLS-enabled production binary {} not built", bin));
        return r;
    }
    let hs = histories(scn, depth, cap);
    let server = cfg.name.clone().unwrap_or_else(|| "irc.irc".into());
    let n = hs.len();
    let threads = crate::props::threads().min(8);
    let idx = std::sync::atomic::AtomicUsize::new(0);
    let out = std::sync::Mutex::new(vec![]);
    std::thread::scope(|s| {
        for t in 0..threads {
            let idx = &idx;
            let out = &out;
            let hs = &hs;
            let server = &server;
            s.spawn(move || loop {
                let i = idx.fetch_add(1, std::sync::atomic::Ordering::SeqCst);
                if i >= n {
                    break;
                }
                let port = 25000 + (t as u16) * 1200 + ((i * 2) % 1000) as u16;
                let mut plain = run_tcp(bin, cfg, scn.slots(), prelude_acts, &hs[i], port, dir, false);
                if plain.is_none() {
                    plain = run_tcp(bin, cfg, scn.slots(), prelude_acts, &hs[i], port + 10000, dir, false);
                }
                let mut tls = run_tcp(bin, cfg, scn.slots(), prelude_acts, &hs[i], port + 1, dir, true);
                if tls.is_none() {
                    tls = run_tcp(bin, cfg, scn.slots(), prelude_acts, &hs[i], port + 10001, dir, true);
                }
                let verdict = match (plain, tls) {
                    (Some(p), Some(t)) => {
                        let mut diff = None;
                        let mut saw671 = false;
                        for (k, (ps, ts)) in p.iter().zip(t.iter()).enumerate() {
                            for c in 0..ps.len().min(ts.len()) {
                                let tl: Vec<String> = ts[c].iter().filter(|l| {
                                    let is = l.contains(" 671 ");
                                    if is {
                                        saw671 = true;
                                    }
                                    !is
                                }).cloned().collect();
                                if canon_lines(server, &ps[c]) != canon_lines(server, &tl) {
                                    diff = Some(format!("step {} connection {}: plain {:?} vs TLS {:?}", k, c, ps[c], ts[c]));
                                    break;
                                }
                            }
                            if diff.is_some() {
                                break;
                            }
                        }
                        (diff, saw671)
                    }
                    _ => (Some("machinery: TCP/TLS run could not be set up".to_string()), false),
                };
                out.lock().unwrap().push((i, verdict));
            });
        }
    });
    let results = out.into_inner().unwrap();
    let mut setup_fail = 0;
    let mut any671 = false;
    for (i, (v, s671)) in results {
        any671 = any671 || s671;
        if let Some(d) = v {
            if d.starts_with("machinery") {
                setup_fail += 1;
                continue;
            }
            if r.violations.len() < 10 {
                r.violations.push(Violation { scenario: name.to_string(), sig: "tls:transcripts-differ".into(), detail: d, history: hs[i].clone(), transcript: vec![] });
            }
        }
    }
    r.evaluations = n as u64 * 2;
    r.states = n as u64;
    r.transitions = hs.iter().map(|h| h.len() as u64).sum::<u64>() * 2;
    r.distinct = n as u64;
    r.traces = ((n - setup_fail) * 2) as u64;
    r.exhaustive = setup_fail == 0;
    if setup_fail > 0 {
        r.cap = Some(format!("{} of {} histories could not be run (loopback/port/TLS trouble)", setup_fail, n));
    }
    if setup_fail == n && n > 0 {
        r.machinery = Some("no history could be run over TLS".into());
    }
    r.samples = hs.iter().take(2).map(|h| json!(h.iter().map(|a| a.render()).collect::<Vec<_>>())).collect();
    r.extra = json!({"histories": n, "depth": depth, "binary": bin, "setup_failures": setup_fail, "rpl_whoissecure_seen_over_tls": any671});
    r.wall_s = t0.elapsed().as_secs_f64();
    r
}
