//! World: one real `MainState` plus hand-polled real connection futures over
//! in-memory duplex streams, on a paused-clock current-thread runtime.
//!
//! Everything the server does is the repository's own code; this file only
//! owns the nondeterminism (which connection runs, which `select!` branch
//! fires, when time passes, when bytes arrive).

use crate::state::verif::{self, ConnInfo, Directive, Snapshot};
use crate::state::MainState;
use crate::config::MainConfig;
use std::cell::RefCell;
use std::future::Future;
use std::net::IpAddr;
use std::panic::{catch_unwind, AssertUnwindSafe};
use std::pin::Pin;
use std::sync::Arc;
use std::task::{Context, Poll};
use tokio::io::{AsyncRead, AsyncWrite, DuplexStream, ReadBuf};

pub const MAX_LINE: usize = 2000;

#[derive(Clone, Debug, PartialEq, Eq)]
pub enum Life {
    Unconnected,
    Live,
    /// future returned: the server ended this connection
    Finished,
    /// the connection future panicked (tokio would abort the task)
    Panicked(String),
    /// register_conn_state refused (max_connections) - future returned at once
    Refused,
}

pub struct Conn {
    pub fut: Option<Pin<Box<dyn Future<Output = ()>>>>,
    client: Option<DuplexStream>,
    pub life: Life,
    /// socket events (lines, codec errors, EOF) written but not yet handled
    pub avail: usize,
    /// lines "in flight": sent by the client but not yet readable by the server
    /// (kept on the harness side so that no select! branch can see them early)
    pub held: std::collections::VecDeque<Vec<u8>>,
    /// model of the codec: bytes written that do not yet form a line
    partial: Vec<u8>,
    codec_dead: bool,
    pub client_closed: bool,
    rx: Vec<u8>,
    /// every byte the server ever sent on this connection
    pub raw: Vec<u8>,
    /// lines received and not yet taken by `take_lines`
    pub lines: Vec<String>,
    /// the server side has closed (read returned 0)
    pub eof_seen: bool,
    /// the client does not read its socket (back-pressure scenarios): `drain` is a no-op
    pub stalled: bool,
    /// the connection task is waiting for something that is not one of its gated event
    /// sources (a full socket, a lock): the default schedule leaves it alone
    pub blocked: bool,
}

impl Conn {
    fn new() -> Conn {
        Conn {
            fut: None,
            client: None,
            life: Life::Unconnected,
            avail: 0,
            held: std::collections::VecDeque::new(),
            partial: vec![],
            codec_dead: false,
            client_closed: false,
            rx: vec![],
            raw: vec![],
            lines: vec![],
            eof_seen: false,
            stalled: false,
            blocked: false,
        }
    }
    pub fn is_live(&self) -> bool {
        self.life == Life::Live
    }
}

#[derive(Debug, Clone)]
pub struct MachineryError(pub String);

thread_local! {
    static LAST_PANIC: RefCell<Option<String>> = RefCell::new(None);
}

/// Install a panic hook that records the message + location in a thread-local
/// instead of printing (panics inside connection futures are *observations*).
pub fn install_panic_hook() {
    let default = std::panic::take_hook();
    std::panic::set_hook(Box::new(move |info| {
        let msg = if let Some(s) = info.payload().downcast_ref::<&str>() {
            s.to_string()
        } else if let Some(s) = info.payload().downcast_ref::<String>() {
            s.clone()
        } else {
            "<non-string panic>".to_string()
        };
        let loc = info
            .location()
            .map(|l| format!("{}:{}", l.file(), l.line()))
            .unwrap_or_default();
        let quiet = QUIET_PANICS.with(|q| *q.borrow());
        LAST_PANIC.with(|p| *p.borrow_mut() = Some(format!("{} @ {}", msg, loc)));
        if !quiet {
            default(info);
        }
    }));
}

thread_local! {
    static QUIET_PANICS: RefCell<bool> = RefCell::new(false);
}

pub fn set_quiet_panics(q: bool) {
    QUIET_PANICS.with(|c| *c.borrow_mut() = q);
}

pub fn take_last_panic() -> Option<String> {
    LAST_PANIC.with(|p| p.borrow_mut().take())
}

/// Run `f` catching panics; returns Err(message @ location) on panic.
pub fn guarded<R>(f: impl FnOnce() -> R) -> Result<R, String> {
    set_quiet_panics(true);
    let r = catch_unwind(AssertUnwindSafe(f));
    set_quiet_panics(false);
    match r {
        Ok(v) => Ok(v),
        Err(_) => Err(take_last_panic().unwrap_or_else(|| "<panic>".into())),
    }
}

pub struct World {
    pub rt: tokio::runtime::Runtime,
    pub main: Arc<MainState>,
    pub conns: Vec<Conn>,
    /// number of polls performed (for statistics)
    pub polls: u64,
    pub ip: IpAddr,
    /// virtual seconds elapsed
    pub now: u64,
    /// id of this world's hook control block (several worlds may live on one thread)
    pub ctl: usize,
}

#[derive(Clone, Debug, PartialEq, Eq)]
pub enum PollOut {
    Ready,
    Pending,
    Panicked,
}

impl World {
    pub fn new(config: MainConfig, slots: usize) -> World {
        let rt = tokio::runtime::Builder::new_current_thread()
            .enable_time()
            .start_paused(true)
            .build()
            .expect("runtime");
        let ctl = verif::activate(slots);
        let main = Arc::new(MainState::new_from_config(config));
        World {
            rt,
            main,
            conns: (0..slots).map(|_| Conn::new()).collect(),
            polls: 0,
            ip: "127.0.0.1".parse().unwrap(),
            now: 0,
            ctl,
        }
    }

    pub fn slots(&self) -> usize {
        self.conns.len()
    }

    /// Open connection `i` (must be Unconnected or ended) and run it up to its
    /// first gate (or to completion if refused).
    pub fn connect(&mut self, i: usize) -> Result<(), MachineryError> {
        self.connect_cap(i, 1 << 20)
    }

    /// `connect` with a socket buffer of `cap` bytes in each direction.
    pub fn connect_cap(&mut self, i: usize, cap: usize) -> Result<(), MachineryError> {
        verif::select(self.ctl);
        let (client, server) = tokio::io::duplex(cap);
        let fut = verif::run_conn(self.main.clone(), server, self.ip);
        let mut c = Conn::new();
        c.fut = Some(Box::pin(fut));
        c.client = Some(client);
        c.life = Life::Live;
        self.conns[i] = c;
        // run to the first gate
        match self.poll_conn(i) {
            PollOut::Ready => {
                self.conns[i].life = Life::Refused;
            }
            PollOut::Panicked => {}
            PollOut::Pending => {
                if !verif::at_gate(i) {
                    return Err(MachineryError(format!("conn {} not at gate after connect", i)));
                }
            }
        }
        self.drain(i);
        Ok(())
    }

    /// Poll connection future `i` once.
    pub fn poll_conn(&mut self, i: usize) -> PollOut {
        let _g = self.rt.enter();
        verif::select(self.ctl);
        verif::set_current(i);
        self.polls += 1;
        let fut = match self.conns[i].fut.as_mut() {
            Some(f) => f,
            None => return PollOut::Ready,
        };
        let waker = futures::task::noop_waker_ref();
        let mut cx = Context::from_waker(waker);
        set_quiet_panics(true);
        let r = catch_unwind(AssertUnwindSafe(|| fut.as_mut().poll(&mut cx)));
        set_quiet_panics(false);
        match r {
            Ok(Poll::Ready(())) => {
                self.conns[i].fut = None;
                self.conns[i].life = Life::Finished;
                PollOut::Ready
            }
            Ok(Poll::Pending) => PollOut::Pending,
            Err(_) => {
                let msg = take_last_panic().unwrap_or_else(|| "<panic>".into());
                // tokio would drop the task: drop the future (runs Drop of ConnState)
                let f = self.conns[i].fut.take();
                set_quiet_panics(true);
                let _ = catch_unwind(AssertUnwindSafe(move || drop(f)));
                set_quiet_panics(false);
                self.conns[i].life = Life::Panicked(msg);
                PollOut::Panicked
            }
        }
    }

    /// Refresh and return the published info of a live connection parked at its gate.
    pub fn info(&mut self, i: usize) -> Option<ConnInfo> {
        if !self.conns[i].is_live() {
            return None;
        }
        verif::select(self.ctl);
        if verif::at_gate(i) {
            // a poll at the gate re-publishes fresh info and stays pending
            self.poll_conn(i);
        }
        verif::conn_info(i)
    }

    /// Run one gated `process` iteration of connection `i` under directive `d`
    /// to completion (sequential mode: nothing else runs meanwhile).
    pub fn run_directive(&mut self, i: usize, d: Directive) -> Result<(), MachineryError> {
        if !self.conns[i].is_live() {
            return Ok(());
        }
        verif::select(self.ctl);
        if !verif::at_gate(i) {
            return Err(MachineryError(format!("conn {} not at gate for {:?}", i, d)));
        }
        verif::direct(i, d);
        for _ in 0..64 {
            match self.poll_conn(i) {
                PollOut::Ready | PollOut::Panicked => {
                    self.drain(i);
                    self.spin();
                    return Ok(());
                }
                PollOut::Pending => {
                    if verif::at_gate(i) {
                        self.drain(i);
                        self.spin();
                        return Ok(());
                    }
                }
            }
            self.drain(i);
        }
        Err(MachineryError(format!(
            "conn {} stuck under directive {:?} (event-source model mismatch?)",
            i, d
        )))
    }

    /// `run_directive` for back-pressure scenarios: a connection that stays pending away
    /// from its gate (a full socket, a lock somebody else holds) is marked `blocked` and
    /// `Ok(true)` is returned instead of a machinery error.
    pub fn run_directive_blocking(&mut self, i: usize, d: Directive) -> Result<bool, MachineryError> {
        if !self.conns[i].is_live() {
            return Ok(false);
        }
        verif::select(self.ctl);
        if !verif::at_gate(i) {
            return Err(MachineryError(format!("conn {} not at gate for {:?}", i, d)));
        }
        verif::direct(i, d);
        // polls without any byte arriving at the client since the previous one
        let mut idle = 0;
        while idle < 64 {
            match self.poll_conn(i) {
                PollOut::Ready | PollOut::Panicked => {
                    self.drain(i);
                    self.spin();
                    return Ok(false);
                }
                PollOut::Pending => {
                    if verif::at_gate(i) {
                        self.drain(i);
                        self.spin();
                        return Ok(false);
                    }
                }
            }
            let before = self.conns[i].raw.len();
            self.drain(i);
            if self.conns[i].raw.len() > before {
                idle = 0;
            } else {
                idle += 1;
            }
        }
        self.conns[i].blocked = true;
        Ok(true)
    }

    /// Send one line from client `i` and settle; `Ok(true)` when the connection's task
    /// ended up blocked away from its gate.
    pub fn send_observe_block(&mut self, i: usize, line: &str) -> Result<bool, MachineryError> {
        self.write_line(i, line);
        if self.conns[i].blocked {
            // still waiting since an earlier step: the line stays unread in the socket
            return Ok(true);
        }
        let mut blocked = false;
        while self.conns[i].avail > 0 && self.conns[i].is_live() && !blocked {
            self.conns[i].avail -= 1;
            blocked = self.run_directive_blocking(i, Directive::Socket)?;
        }
        self.settle_blocking()?;
        Ok(blocked)
    }

    /// `settle` in which a connection may end up blocked instead of at its gate.
    pub fn settle_blocking(&mut self) -> Result<(), MachineryError> {
        for _round in 0..10_000 {
            let mut progressed = false;
            for i in 0..self.conns.len() {
                loop {
                    if !self.conns[i].is_live() || self.conns[i].blocked {
                        break;
                    }
                    let r = self.ready_sources(i);
                    match r.first() {
                        Some(d) => {
                            self.run_directive_blocking(i, *d)?;
                            progressed = true;
                        }
                        None => break,
                    }
                }
            }
            if !progressed {
                return Ok(());
            }
        }
        Err(MachineryError("settle did not converge".into()))
    }

    /// The client of a stalled connection reads again: what was written is consumed and a
    /// blocked task runs on. `Ok(true)` when the task got back to its gate (or ended).
    pub fn resume(&mut self, i: usize) -> Result<bool, MachineryError> {
        self.conns[i].stalled = false;
        verif::select(self.ctl);
        for _ in 0..100_000 {
            self.drain(i);
            if !self.conns[i].is_live() {
                self.conns[i].blocked = false;
                return Ok(true);
            }
            if verif::at_gate(i) {
                self.conns[i].blocked = false;
                self.spin();
                self.settle_blocking()?;
                return Ok(true);
            }
            match self.poll_conn(i) {
                PollOut::Ready | PollOut::Panicked => {
                    self.drain(i);
                    self.conns[i].blocked = false;
                    return Ok(true);
                }
                PollOut::Pending => {}
            }
        }
        if std::env::var("VERIF_DEBUG_RESUME").is_ok() {
            eprintln!("resume({}) failed: raw={} at_gate={} life={:?} avail={}", i, self.conns[i].raw.len(), verif::at_gate(i), self.conns[i].life, self.conns[i].avail);
        }
        Ok(false)
    }

    /// The client of connection `i` closes its socket without having read what the server
    /// wrote (back-pressure scenarios): a task blocked on that socket now fails its write;
    /// the pending socket events (end of stream) are handled, then everything settles.
    /// `Ok(true)` when the connection's task has ended.
    pub fn eof_unread(&mut self, i: usize) -> Result<bool, MachineryError> {
        self.close_client(i);
        self.conns[i].stalled = false;
        verif::select(self.ctl);
        for _ in 0..10_000 {
            if !self.conns[i].is_live() {
                break;
            }
            if verif::at_gate(i) {
                self.conns[i].blocked = false;
                if self.conns[i].avail == 0 {
                    break;
                }
                self.conns[i].avail -= 1;
                if self.run_directive_blocking(i, Directive::Socket)? {
                    // still not at its gate: keep polling it below
                    self.conns[i].blocked = true;
                }
                continue;
            }
            match self.poll_conn(i) {
                PollOut::Ready | PollOut::Panicked => break,
                PollOut::Pending => {}
            }
        }
        if !self.conns[i].is_live() {
            self.conns[i].blocked = false;
            self.conns[i].avail = 0;
            self.conns[i].held.clear();
        }
        self.spin();
        self.settle_blocking()?;
        Ok(!self.conns[i].is_live())
    }

    /// Let tasks the server spawned (its ping/pong timers) run without letting
    /// time pass - in production they are scheduled as soon as they are spawned.
    pub fn spin(&mut self) {
        set_quiet_panics(true);
        self.rt.block_on(async {
            tokio::task::yield_now().await;
            tokio::task::yield_now().await;
        });
        set_quiet_panics(false);
    }

    /// Write raw bytes to the client side of connection `i` (no processing yet).
    pub fn write_raw(&mut self, i: usize, bytes: &[u8]) {
        let c = &mut self.conns[i];
        if c.client_closed || c.client.is_none() {
            return;
        }
        // codec model: how many socket events will this produce?
        if !c.codec_dead {
            for &b in bytes {
                c.partial.push(b);
                if b == b'\n' {
                    let line_len = c.partial.len() - 1;
                    let bad_utf8 = std::str::from_utf8(&c.partial[..line_len]).is_err();
                    if line_len > MAX_LINE || bad_utf8 {
                        c.avail += 2; // the error, then the forced end of stream
                        c.codec_dead = true;
                        c.partial.clear();
                        break;
                    } else {
                        c.avail += 1;
                    }
                    c.partial.clear();
                } else if c.partial.len() > MAX_LINE {
                    c.avail += 2;
                    c.codec_dead = true;
                    c.partial.clear();
                    break;
                }
            }
        }
        let waker = futures::task::noop_waker_ref();
        let mut cx = Context::from_waker(waker);
        let cl = c.client.as_mut().unwrap();
        let mut off = 0;
        while off < bytes.len() {
            match Pin::new(&mut *cl).poll_write(&mut cx, &bytes[off..]) {
                Poll::Ready(Ok(n)) => off += n,
                _ => break, // server side gone or buffer full: bytes are lost like on a reset socket
            }
        }
    }

    pub fn write_line(&mut self, i: usize, line: &str) {
        let mut b = line.as_bytes().to_vec();
        b.extend_from_slice(b"\r\n");
        self.write_raw(i, &b);
    }

    /// Close the client side (EOF / reset as seen by the server).
    pub fn close_client(&mut self, i: usize) {
        let c = &mut self.conns[i];
        if c.client_closed {
            return;
        }
        // read what is there first so that observations are not lost
        c.client_closed = true;
        if c.client.is_some() {
            // drain before dropping
        }
        self.drain(i);
        let c = &mut self.conns[i];
        c.client = None;
        if !c.codec_dead {
            if !c.partial.is_empty() {
                let bad = std::str::from_utf8(&c.partial).is_err();
                c.avail += if bad { 2 } else { 2 }; // partial line (or error), then None
                c.partial.clear();
            } else {
                c.avail += 1;
            }
            c.codec_dead = true;
        }
    }

    /// Put a line in flight for connection `i` (the server cannot see it yet).
    pub fn hold_line(&mut self, i: usize, line: &str) {
        let mut b = line.as_bytes().to_vec();
        b.extend_from_slice(b"\r\n");
        self.conns[i].held.push_back(b);
    }

    /// Handle all pending socket events of connection `i` (lines in flight
    /// arrive now, in order).
    pub fn pump_socket(&mut self, i: usize) -> Result<(), MachineryError> {
        loop {
            if !self.conns[i].is_live() {
                break;
            }
            if self.conns[i].avail == 0 {
                match self.conns[i].held.pop_front() {
                    Some(chunk) => {
                        self.write_raw(i, &chunk);
                        continue;
                    }
                    None => break,
                }
            }
            self.conns[i].avail -= 1;
            self.run_directive(i, Directive::Socket)?;
        }
        if !self.conns[i].is_live() {
            self.conns[i].avail = 0;
            self.conns[i].held.clear();
        }
        Ok(())
    }

    /// Handle exactly one pending socket event of connection `i`.
    pub fn pump_socket_one(&mut self, i: usize) -> Result<(), MachineryError> {
        if self.conns[i].avail > 0 && self.conns[i].is_live() {
            self.conns[i].avail -= 1;
            self.run_directive(i, Directive::Socket)?;
        }
        Ok(())
    }

    /// Which non-socket event sources of `i` are ready (fresh).
    pub fn ready_sources(&mut self, i: usize) -> Vec<Directive> {
        let mut v = vec![];
        if self.conns[i].blocked {
            return v;
        }
        if let Some(info) = self.info(i) {
            if info.queue_len > 0 {
                v.push(Directive::Queue);
            }
            if info_kill_pending(&info) {
                v.push(Directive::Kill);
            }
            if info.timeout_len > 0 {
                v.push(Directive::Timeout);
            }
            if info.ping_len > 0 {
                v.push(Directive::Ping);
            }
        }
        v
    }

    /// Default schedule: until nothing is ready, connections in slot order
    /// drain Queue, then Kill, Timeout, Ping.
    pub fn settle(&mut self) -> Result<(), MachineryError> {
        self.settle_order(false)
    }

    /// `reverse`: among the event sources of one connection that are ready at the same
    /// time the *last* in the default order is served first (Ping before Timeout before
    /// Kill before Queue) - the other order the server's unbiased select! may take.
    pub fn settle_order(&mut self, reverse: bool) -> Result<(), MachineryError> {
        for _round in 0..10_000 {
            let mut progressed = false;
            for i in 0..self.conns.len() {
                if !self.conns[i].is_live() {
                    continue;
                }
                loop {
                    let r = self.ready_sources(i);
                    if let Some(d) = if reverse { r.last() } else { r.first() } {
                        self.run_directive(i, *d)?;
                        progressed = true;
                        if !self.conns[i].is_live() {
                            break;
                        }
                    } else {
                        break;
                    }
                }
            }
            if !progressed {
                return Ok(());
            }
        }
        Err(MachineryError("settle did not converge".into()))
    }

    /// Send one line from client `i`, handle it, and settle.
    pub fn send(&mut self, i: usize, line: &str) -> Result<(), MachineryError> {
        self.write_line(i, line);
        self.pump_socket(i)?;
        self.settle()
    }

    /// Close client `i`, let the server notice, and settle.
    pub fn eof(&mut self, i: usize) -> Result<(), MachineryError> {
        self.close_client(i);
        self.pump_socket(i)?;
        self.settle()
    }

    /// Advance the virtual clock by `secs` seconds, one second at a time, letting
    /// the server's own timer tasks run; does not settle.
    pub fn advance(&mut self, secs: u64) {
        for _ in 0..secs {
            // the server's own timer tasks may panic when their connection is gone
            // (tokio catches that); keep it off stderr
            set_quiet_panics(true);
            self.rt.block_on(async {
                tokio::time::advance(std::time::Duration::from_secs(1)).await;
                for _ in 0..4 {
                    tokio::task::yield_now().await;
                }
            });
            set_quiet_panics(false);
            self.now += 1;
        }
    }

    pub fn tick(&mut self) -> Result<(), MachineryError> {
        self.advance(1);
        self.settle()
    }

    /// One second passes; simultaneous events of a connection are served in the reverse order.
    pub fn tick_reverse(&mut self) -> Result<(), MachineryError> {
        self.advance(1);
        self.settle_order(true)
    }

    /// Read everything currently readable on the client side of `i`.
    pub fn drain(&mut self, i: usize) {
        let c = &mut self.conns[i];
        if c.stalled {
            return;
        }
        let cl = match c.client.as_mut() {
            Some(cl) => cl,
            None => return,
        };
        let waker = futures::task::noop_waker_ref();
        let mut cx = Context::from_waker(waker);
        let mut buf = [0u8; 8192];
        loop {
            let mut rb = ReadBuf::new(&mut buf);
            match Pin::new(&mut *cl).poll_read(&mut cx, &mut rb) {
                Poll::Ready(Ok(())) => {
                    let n = rb.filled().len();
                    if n == 0 {
                        c.eof_seen = true;
                        break;
                    }
                    c.rx.extend_from_slice(rb.filled());
                    c.raw.extend_from_slice(rb.filled());
                }
                _ => break,
            }
        }
        // split complete lines
        while let Some(pos) = c.rx.iter().position(|&b| b == b'\n') {
            let mut line: Vec<u8> = c.rx.drain(..=pos).collect();
            line.pop();
            if line.last() == Some(&b'\r') {
                line.pop();
            }
            c.lines.push(String::from_utf8_lossy(&line).into_owned());
        }
    }

    pub fn drain_all(&mut self) {
        for i in 0..self.conns.len() {
            self.drain(i);
        }
    }

    /// Take the lines received by client `i` since the last take.
    pub fn take_lines(&mut self, i: usize) -> Vec<String> {
        self.drain(i);
        std::mem::take(&mut self.conns[i].lines)
    }

    pub fn take_all(&mut self) -> Vec<Vec<String>> {
        (0..self.conns.len()).map(|i| self.take_lines(i)).collect()
    }

    pub fn snapshot(&self) -> Snapshot {
        verif::snapshot(&self.main).expect("state lock held during snapshot")
    }

    pub fn live_count(&self) -> usize {
        self.conns.iter().filter(|c| c.is_live()).count()
    }

    /// Convenience: connect and register `nick` with user name `user` on slot `i`.
    pub fn register(&mut self, i: usize, nick: &str, user: &str) -> Result<(), MachineryError> {
        self.connect(i)?;
        self.send(i, &format!("NICK {}", nick))?;
        self.send(i, &format!("USER {} 8 * :Real {}", user, user))?;
        Ok(())
    }
}

pub fn info_kill_pending(info: &ConnInfo) -> bool {
    info.kill_pending
}

impl Drop for World {
    fn drop(&mut self) {
        let _g = self.rt.enter();
        verif::select(self.ctl);
        // dropping futures may run Drop impls that panic on a corrupted state
        set_quiet_panics(true);
        for c in self.conns.iter_mut() {
            let f = c.fut.take();
            let _ = catch_unwind(AssertUnwindSafe(move || drop(f)));
            c.client = None;
        }
        set_quiet_panics(false);
        verif::deactivate(self.ctl);
    }
}
