//! C13 - lines are framed and parsed by the IRC grammar, and relays re-parse identically.

use super::common::*;
use super::threads;
use crate::bfs::Violation;
use crate::canon::{tokenize, Msg, TokErr};
use crate::check::Finding;
use crate::command::{Command, CommandError, Message};
use crate::fun::{all_strings, count_strings, nth_string, par_ranges};
use crate::run::{Part, PartResult, Plan};
use crate::scn::Cfg;
use crate::spec::SpecOper;
use crate::world::{guarded, Life, World};
use serde_json::{json, Value};
use std::collections::BTreeSet;
use std::time::Instant;

const ALPHA: [char; 6] = ['A', 'a', ' ', ':', ',', '#'];
/// second sweep with a TAB (the server splits on any ASCII blank)
const ALPHA_TAB: [char; 5] = ['A', 'a', ' ', ':', '\t'];

fn fv(scn: &str, f: Finding, input: Value) -> Violation {
    Violation { scenario: scn.to_string(), sig: f.sig, detail: f.detail, history: vec![], transcript: vec![input.to_string()] }
}

/// Is the line well-formed for the reference grammar (so that exact agreement is demanded)?
fn reference_wellformed(line: &str) -> Option<Msg> {
    let m = tokenize(line).ok()?;
    if let Some(p) = &m.prefix {
        if p.is_empty() || p.contains(':') {
            return None;
        }
        if let (Some(e), Some(a)) = (p.find('!'), p.find('@')) {
            if e > a {
                return None;
            }
        }
    }
    if m.cmd.is_empty() || m.cmd.starts_with(':') || m.cmd.contains(':') {
        return None;
    }
    Some(m)
}

pub fn case_tokenize(line: &str) -> Vec<Finding> {
    let got = guarded(|| Message::from_shared_str(line).map(|m| format!("{:?}", m)).map_err(|e| format!("{:?}", e)));
    let got = match got {
        Err(p) => return vec![finding("parse:panic", format!("Message::from_shared_str({:?}) aborted: {}", line, p))],
        Ok(g) => g,
    };
    match reference_wellformed(line) {
        Some(m) => {
            let want = format!("Message {{ source: {:?}, command: {:?}, params: {:?} }}", m.prefix.as_deref(), m.cmd, m.params);
            match got {
                Ok(g) if g == want => vec![],
                other => vec![finding("parse:misread", format!("line {:?}: grammar gives {} but the server parsed {:?}", line, want, other))],
            }
        }
        None => {
            // blank lines must be reported as empty (they are ignored)
            if line.trim().is_empty() {
                match got {
                    Err(e) if e == "Empty" => vec![],
                    other => vec![finding("parse:empty", format!("blank line {:?} parsed as {:?}", line, other))],
                }
            } else {
                vec![]
            }
        }
    }
}

fn part_tokenize(max: u32) -> PartResult {
    let t0 = Instant::now();
    let mut r = PartResult::new("fun:tokenize", "E-FUN");
    let n = count_strings(ALPHA.len() as u64, max);
    let res = par_ranges(n, threads(), 4096, |a, b| {
        let mut v = vec![];
        let mut wf = 0u64;
        for i in a..b {
            let line = nth_string(&ALPHA, max, i);
            if reference_wellformed(&line).is_some() {
                wf += 1;
            }
            for f in case_tokenize(&line) {
                if v.len() < 10 {
                    v.push(fv("fun:tokenize", f, json!({"line": line})));
                }
            }
        }
        (v, wf)
    });
    let mut wf = 0;
    for (v, w) in res {
        r.violations.extend(v);
        wf += w;
    }
    // second alphabet with a TAB, two characters shorter
    let maxt = max.saturating_sub(1);
    let nt = count_strings(ALPHA_TAB.len() as u64, maxt);
    let res = par_ranges(nt, threads(), 4096, |a, b| {
        let mut v = vec![];
        for i in a..b {
            let line = nth_string(&ALPHA_TAB, maxt, i);
            for f in case_tokenize(&line) {
                if v.len() < 10 {
                    v.push(fv("fun:tokenize", f, json!({"line": line})));
                }
            }
        }
        v
    });
    for v in res {
        r.violations.extend(v);
    }
    r.evaluations += nt;
    // third alphabet with a non-ASCII space (U+3000): it separates nothing
    let alpha_usp: Vec<char> = vec!['A', 'a', ' ', ':', '\u{3000}'];
    let nu = count_strings(alpha_usp.len() as u64, maxt);
    let res = par_ranges(nu, threads(), 4096, |a, b| {
        let mut v = vec![];
        for i in a..b {
            let line = nth_string(&alpha_usp, maxt, i);
            // leading blanks are skipped by the server, and it skips every kind of blank there
            // (a line that begins with U+3000 has no command word either way): only U+3000
            // after the first word is judged
            if line.trim_start_matches(' ').starts_with('\u{3000}') {
                continue;
            }
            for f in case_tokenize(&line) {
                if v.len() < 10 {
                    v.push(fv("fun:tokenize", f, json!({"line": line})));
                }
            }
        }
        v
    });
    for v in res {
        r.violations.extend(v);
    }
    r.evaluations += nu;
    for l in ["JOIN #caf\u{3000}bar", "PRIVMSG #c\u{a0}d :x", "A a\u{2003}b", "A\u{85}a :b", "NICK na\u{a0}me", "TOPIC #c foo\u{2003}bar"] {
        for f in case_tokenize(l) {
            r.violations.push(fv("fun:tokenize", f, json!({"line": l})));
        }
        r.evaluations += 1;
    }
    // hand-picked shapes outside the small alphabet
    for l in ["PRIVMSG bob\t:a b c", "A\t:a a", "A a\t:a :a", "A\ta\t a", "\tA a", "PRIVMSG bob http://x.y/z", "TOPIC #c a:b", "PRIVMSG bob :a:b :c", ":src!u@h PRIVMSG #c :x", "  PING   tok  ", "privmsg Bob :Hi", "USER a 0 * :R R", "KICK #c bob ::", "AWAY :", "MODE #c +k a:b", "PRIVMSG #c :", "PING a:"] {
        for f in case_tokenize(l) {
            r.violations.push(fv("fun:tokenize", f, json!({"line": l})));
        }
        r.evaluations += 1;
    }
    r.violations.truncate(30);
    r.evaluations += n;
    r.states = n;
    r.transitions = n;
    r.distinct = wf;
    r.traces = n;
    r.exhaustive = true;
    r.samples = vec![json!({"line":"A a:a","grammar":"command A, params [\"a:a\"]"}), json!({"line":":a A :a a","grammar":"source a, command A, params [\"a a\"]"})];
    r.extra = json!({"alphabet":"A a space : , #","max_len":max,"lines":n,"wellformed_lines_compared_exactly":wf});
    r.wall_s = t0.elapsed().as_secs_f64();
    r
}

/// verb, minimum number of parameters, a canonical valid parameter list (at least max arity long)
const VERBS: [(&str, usize, &[&str]); 41] = [
    ("CAP", 1, &["LS", "302"]),
    ("AUTHENTICATE", 0, &["PLAIN"]),
    ("PASS", 1, &["pw"]),
    ("NICK", 1, &["nn"]),
    ("USER", 4, &["uu", "0", "*", "real"]),
    ("PING", 1, &["tok"]),
    ("PONG", 1, &["tok"]),
    ("OPER", 2, &["op", "pw"]),
    ("QUIT", 0, &["bye"]),
    ("JOIN", 1, &["#c", "k"]),
    ("PART", 1, &["#c", "r"]),
    ("TOPIC", 1, &["#c", "t"]),
    ("NAMES", 0, &["#c"]),
    ("LIST", 0, &["#c", "a.b"]),
    ("INVITE", 2, &["bob", "#c"]),
    ("KICK", 2, &["#c", "bob", "r"]),
    ("MOTD", 0, &["a.b"]),
    ("VERSION", 0, &["a.b"]),
    ("ADMIN", 0, &["a.b"]),
    ("CONNECT", 1, &["a.b", "6667", "c.d"]),
    ("LUSERS", 0, &[]),
    ("TIME", 0, &["a.b"]),
    ("STATS", 1, &["u", "a.b"]),
    ("LINKS", 0, &["a.b", "*.c"]),
    ("HELP", 0, &["MAIN"]),
    ("INFO", 0, &[]),
    ("MODE", 1, &["#c", "+i"]),
    ("PRIVMSG", 2, &["bob", "text"]),
    ("NOTICE", 2, &["bob", "text"]),
    ("WHO", 1, &["bob"]),
    ("WHOIS", 1, &["bob"]),
    ("WHOWAS", 1, &["bob", "1", "a.b"]),
    ("KILL", 2, &["bob", "c"]),
    ("REHASH", 0, &[]),
    ("RESTART", 0, &[]),
    ("SQUIT", 2, &["a.b", "c"]),
    ("AWAY", 0, &["t"]),
    ("USERHOST", 1, &["bob"]),
    ("WALLOPS", 1, &["t"]),
    ("ISON", 1, &["bob"]),
    ("DIE", 0, &["m"]),
];

fn case_variants(v: &str) -> Vec<String> {
    let mixed: String = v.chars().enumerate().map(|(i, c)| if i % 2 == 0 { c.to_ascii_lowercase() } else { c }).collect();
    // capitalised ("Privmsg"), upper-case head + lower-case tail ("PRIvmsg"), alternating starting upper
    let capital: String = v.chars().enumerate().map(|(i, c)| if i == 0 { c.to_ascii_uppercase() } else { c.to_ascii_lowercase() }).collect();
    let head: String = v.chars().enumerate().map(|(i, c)| if i < v.len() / 2 { c.to_ascii_uppercase() } else { c.to_ascii_lowercase() }).collect();
    let mixed2: String = v.chars().enumerate().map(|(i, c)| if i % 2 == 1 { c.to_ascii_lowercase() } else { c.to_ascii_uppercase() }).collect();
    vec![v.to_string(), v.to_ascii_lowercase(), mixed, capital, head, mixed2]
}

#[derive(Debug, PartialEq, Eq, Clone, Copy)]
enum Class {
    Ok,
    NeedMore,
    Unknown,
    ParamError,
}

fn classify(line: &str) -> Result<Class, String> {
    guarded(|| match Message::from_shared_str(line) {
        Err(_) => Class::ParamError,
        Ok(m) => match Command::from_message(&m) {
            Ok(_) => Class::Ok,
            Err(CommandError::NeedMoreParams(_)) => Class::NeedMore,
            Err(CommandError::UnknownCommand(_)) => Class::Unknown,
            Err(_) => Class::ParamError,
        },
    })
}

pub fn case_arity(verb: &str, arity: usize) -> Vec<Finding> {
    let mut out = vec![];
    let (canon, min, params): (&str, usize, &[&str]) = match VERBS.iter().find(|v| v.0.eq_ignore_ascii_case(verb)) {
        Some(v) => (v.0, v.1, v.2),
        None => ("", 0, &[]),
    };
    let mut line = verb.to_string();
    for k in 0..arity {
        line.push(' ');
        line.push_str(params.get(k).copied().unwrap_or("x"));
    }
    let got = match classify(&line) {
        Ok(c) => c,
        Err(p) => return vec![finding("arity:panic", format!("{:?} aborted: {}", line, p))],
    };
    if canon.is_empty() {
        if got != Class::Unknown {
            out.push(finding("arity:unknown", format!("{:?}: unknown verb classified {:?}", line, got)));
        }
    } else if arity < min {
        if got != Class::NeedMore {
            out.push(finding("arity:needmore", format!("{:?}: {} needs {} parameters, got classified {:?}", line, canon, min, got)));
        }
    } else if arity <= params.len() {
        if got != Class::Ok {
            out.push(finding("arity:ok", format!("{:?}: well-formed {} classified {:?}", line, canon, got)));
        }
    } else if got == Class::NeedMore || got == Class::Unknown {
        out.push(finding("arity:surplus", format!("{:?}: surplus parameters classified {:?}", line, got)));
    }
    out
}

/// The same classes on the wire: 461 / 421 / neither, for a registered user.
fn part_arity() -> PartResult {
    let t0 = Instant::now();
    let mut r = PartResult::new("fun:arity", "E-FUN");
    let mut verbs: Vec<String> = vec![];
    for v in VERBS.iter() {
        verbs.extend(case_variants(v.0));
    }
    for u in ["FOO", "foo", "PRIVMSGS", "JOI", "123", "A"] {
        verbs.push(u.to_string());
    }
    let mut classes = BTreeSet::new();
    for v in &verbs {
        let maxp = VERBS.iter().find(|x| x.0.eq_ignore_ascii_case(v)).map_or(1, |x| x.2.len());
        for ar in 0..=(maxp + 2) {
            r.evaluations += 1;
            if let Ok(c) = classify(&{
                let mut l = v.clone();
                let params: &[&str] = VERBS.iter().find(|x| x.0.eq_ignore_ascii_case(v)).map_or(&[], |x| x.2);
                for k in 0..ar {
                    l.push(' ');
                    l.push_str(params.get(k).copied().unwrap_or("x"));
                }
                l
            }) {
                classes.insert(format!("{:?}", c));
            }
            for f in case_arity(v, ar) {
                r.violations.push(fv("fun:arity", f, json!({"verb": v, "arity": ar})));
            }
        }
    }
    // on the wire
    let mut wire = 0u64;
    let cfg = Cfg { opers: vec![SpecOper { name: "op".into(), password: "pw".into(), mask: None }], ..Default::default() };
    for v in VERBS.iter() {
        if ["QUIT", "DIE", "SQUIT", "KILL", "USER", "PASS", "NICK", "CAP"].contains(&v.0) {
            continue; // these end or re-shape the session; their classes are covered above
        }
        for ar in 0..=(v.2.len() + 1) {
            let mut w = World::new(cfg.main_config(), 2);
            if w.register(0, "me", "mu").is_err() || w.register(1, "bob", "bu").is_err() || w.send(1, "JOIN #c").is_err() || w.send(0, "JOIN #c").is_err() {
                r.machinery = Some("wire world setup failed".into());
                break;
            }
            w.take_all();
            let mut line = v.0.to_ascii_lowercase();
            for k in 0..ar {
                line.push(' ');
                line.push_str(v.2.get(k).copied().unwrap_or("x"));
            }
            if w.send(0, &line).is_err() {
                r.violations.push(fv("fun:arity", finding("arity:stalled", format!("{:?} stalled the server", line)), json!({"line": line})));
                continue;
            }
            wire += 1;
            let ls = w.take_lines(0);
            let has461 = ls.iter().any(|l| l.contains(" 461 "));
            let has421 = ls.iter().any(|l| l.contains(" 421 "));
            let want461 = ar < v.1;
            if has461 != want461 || (has421 && v.0 != "AUTHENTICATE") {
                r.violations.push(fv("fun:arity", finding("arity:wire", format!("{:?}: 461={} (expected {}), 421={} : {:?}", line, has461, want461, has421, ls)), json!({"line": line})));
            }
            if w.conns.iter().any(|c| matches!(c.life, Life::Panicked(_))) {
                r.violations.push(fv("fun:arity", finding("arity:panic", format!("{:?} aborted a connection task", line)), json!({"line": line})));
            }
        }
    }
    // unknown verb on the wire
    {
        let mut w = World::new(cfg.main_config(), 1);
        let _ = w.register(0, "me", "mu");
        w.take_all();
        let _ = w.send(0, "FROB a b");
        let ls = w.take_lines(0);
        wire += 1;
        if !ls.iter().any(|l| l.contains(" 421 ")) {
            r.violations.push(fv("fun:arity", finding("arity:wire", format!("unknown verb not answered with 421: {:?}", ls)), json!({"line": "FROB a b"})));
        }
    }
    r.evaluations += wire;
    r.states = r.evaluations;
    r.transitions = r.evaluations;
    r.distinct = classes.len() as u64;
    r.traces = r.evaluations;
    r.exhaustive = true;
    r.samples = vec![json!({"line":"kick #c","expected":"461"}), json!({"line":"FROB a b","expected":"421"})];
    r.extra = json!({"verbs_with_case_variants": verbs.len(), "classes_seen": classes, "wire_cases": wire});
    if classes.len() < 3 {
        r.machinery = Some(format!("vacuous: classes seen {:?}", classes));
    }
    r.wall_s = t0.elapsed().as_secs_f64();
    r
}

/// Framing: segmentation independence, length limit, empty lines.
fn part_codec() -> PartResult {
    let t0 = Instant::now();
    let mut r = PartResult::new("fun:codec", "E-FUN");
    let payload = b"PING one\r\nPING two\r\nPING three\r\n";
    let expect = ["one", "two", "three"];
    let mut cuts: Vec<Vec<usize>> = vec![vec![]];
    for a in 1..payload.len() {
        cuts.push(vec![a]);
        for b in (a + 1)..payload.len() {
            cuts.push(vec![a, b]);
        }
    }
    for cut in &cuts {
        r.evaluations += 1;
        let mut w = World::new(Cfg::default().main_config(), 1);
        if w.register(0, "me", "mu").is_err() {
            r.machinery = Some("setup".into());
            break;
        }
        w.take_all();
        let mut prev = 0;
        let mut bounds = cut.clone();
        bounds.push(payload.len());
        let mut stalled = false;
        for b in bounds {
            w.write_raw(0, &payload[prev..b]);
            if w.pump_socket(0).is_err() || w.settle().is_err() {
                stalled = true;
                break;
            }
            prev = b;
        }
        let ls = w.take_lines(0);
        let toks: Vec<String> = ls.iter().filter(|l| l.contains("PONG")).filter_map(|l| l.rsplit(':').next().map(|s| s.to_string())).collect();
        if stalled || toks != expect {
            r.violations.push(fv("fun:codec", finding("codec:segmentation", format!("payload cut at {:?}: answers {:?} (stalled={})", cut, ls, stalled)), json!({"cut": cut})));
        }
    }
    // lines at, just under and over the limit, followed by a normal line
    // "PRIVMSG bob :" (13 bytes) + token + CR before '\n': 1986 is the longest token that fits
    // into 2000 bytes; the relayed line is longer than the received one (sender prefix)
    for (n, ok) in [(1900usize, true), (1960, true), (1975, true), (1985, true), (1986, true), (1987, false), (1990, false), (2001, false), (4000, false)] {
        r.evaluations += 1;
        let token = "t".repeat(n);
        let mut w = World::new(Cfg::default().main_config(), 2);
        if w.register(0, "me", "mu").is_err() || w.register(1, "bob", "bu").is_err() {
            r.machinery = Some("setup".into());
            break;
        }
        w.take_all();
        let line = format!("PRIVMSG bob :{}", token);
        let total = line.len() + 1; // bytes before '\n' including '\r'
        let fits = total <= 2000;
        let mut bytes = line.into_bytes();
        bytes.extend_from_slice(b"\r\nPING after\r\n");
        w.write_raw(0, &bytes);
        let _ = w.pump_socket(0);
        let _ = w.settle();
        let mine = w.take_lines(0);
        let bobs = w.take_lines(1);
        // the whole text arrives, not a prefix of it (the relay is longer than what was sent:
        // the server prepends the sender's prefix)
        let delivered = bobs.iter().any(|l| l.ends_with(&format!(":{}", token)));
        let partly = bobs.iter().any(|l| l.contains(&token[..20]));
        let got417 = mine.iter().any(|l| l.contains(" 417 "));
        let _ = ok;
        if fits && partly && !delivered {
            r.violations.push(fv("fun:codec", finding("codec:truncated-relay", format!("line of {} bytes (within the limit) was relayed with a different text: received {} bytes", total, bobs.iter().map(|l| l.len()).max().unwrap_or(0))), json!({"len": n})));
        }
        if fits {
            if !delivered || got417 || !mine.iter().any(|l| l.contains("PONG") && l.contains("after")) {
                r.violations.push(fv("fun:codec", finding("codec:limit", format!("line of {} bytes (within the limit): delivered={} 417={} replies {:?}", total, delivered, got417, mine)), json!({"len": n})));
            }
        } else if delivered || partly || !got417 {
            r.violations.push(fv("fun:codec", finding("codec:limit", format!("line of {} bytes (over the limit): delivered={} 417={}", total, delivered, got417)), json!({"len": n})));
        }
        if w.conns.iter().any(|c| matches!(c.life, Life::Panicked(_))) {
            r.violations.push(fv("fun:codec", finding("codec:panic", format!("line of {} bytes aborted a connection task", total)), json!({"len": n})));
        }
    }
    // an unterminated fragment in front of the end of the stream is not a line: the
    // complete line before it is executed, the fragment is not
    for frag in [&b"PRIVMSG bob :half a li"[..], b"NOTICE bob :frag", b"PRIVMSG bob :frag with cr\r", b"PRIVMSG bob", b"P"] {
        r.evaluations += 1;
        let mut w = World::new(Cfg::default().main_config(), 2);
        if w.register(0, "me", "mu").is_err() || w.register(1, "bob", "bu").is_err() {
            r.machinery = Some("setup".into());
            break;
        }
        w.take_all();
        let mut bytes = b"PRIVMSG bob :whole line\r\n".to_vec();
        bytes.extend_from_slice(frag);
        w.write_raw(0, &bytes);
        let _ = w.pump_socket(0);
        let _ = w.eof(0);
        // a server that treats the fragment as a line needs one more read to see the end
        let _ = w.pump_socket_one(0);
        let _ = w.settle();
        let bobs = w.take_lines(1);
        let whole = bobs.iter().filter(|l| l.contains("whole line")).count();
        let partial = bobs.iter().any(|l| l.contains("half a li") || l.contains("frag"));
        if whole != 1 || partial {
            r.violations.push(fv("fun:codec", finding("codec:fragment-at-eof", format!("complete line + unterminated fragment {:?} + end of stream: receiver got {:?}", String::from_utf8_lossy(frag), bobs)), json!({"fragment": String::from_utf8_lossy(frag)})));
        }
        if w.conns.iter().any(|c| matches!(c.life, Life::Panicked(_))) {
            r.violations.push(fv("fun:codec", finding("codec:panic", format!("fragment {:?} at end of stream aborted a connection task", String::from_utf8_lossy(frag))), json!({"fragment": String::from_utf8_lossy(frag)})));
        }
    }
    // empty lines, blank runs
    for raw in [&b"\r\n"[..], b"\n", b"   \r\n", b"\r\n\r\n\r\nPING x\r\n", b"  \r\n \r\nPING x\r\n"] {
        r.evaluations += 1;
        let mut w = World::new(Cfg::default().main_config(), 1);
        let _ = w.register(0, "me", "mu");
        w.take_all();
        w.write_raw(0, raw);
        let _ = w.pump_socket(0);
        let _ = w.settle();
        let ls = w.take_lines(0);
        let want_pong = raw.windows(4).any(|x| x == b"PING");
        let non_pong: Vec<&String> = ls.iter().filter(|l| !l.contains("PONG")).collect();
        if !non_pong.is_empty() || ls.iter().any(|l| l.contains("PONG")) != want_pong || w.conns[0].life != Life::Live {
            r.violations.push(fv("fun:codec", finding("codec:empty", format!("empty/blank input {:?}: replies {:?}, connection {:?}", String::from_utf8_lossy(raw), ls, w.conns[0].life)), json!({"raw": String::from_utf8_lossy(raw)})));
        }
    }
    r.states = r.evaluations;
    r.transitions = r.evaluations;
    r.distinct = r.evaluations;
    r.traces = r.evaluations;
    r.exhaustive = true;
    r.samples = vec![json!({"payload":"PING one\\r\\nPING two\\r\\nPING three\\r\\n","cuts":"every 1 and 2 cut positions"})];
    r.extra = json!({"segmentations": cuts.len()});
    r.wall_s = t0.elapsed().as_secs_f64();
    r
}

/// A line with more parameters than its verb takes is not "silently misread": either the
/// surplus is ignored - the server ends in the state the line without the surplus produces,
/// and later queries are answered alike - or the line is refused with an error and nothing
/// changes. Differential: two real worlds, same history, `with_extra` vs `plain`.
pub fn case_extra(with_extra: &str, plain: &str) -> Vec<Finding> {
    let cfg = Cfg::default();
    let run = |line: Option<&str>| -> Result<(u128, Vec<String>, Vec<String>), String> {
        let mut w = World::new(cfg.main_config(), 3);
        w.register(0, "ann", "au").map_err(|e| e.0)?;
        w.register(1, "bob", "bu").map_err(|e| e.0)?;
        w.register(2, "cat", "cu").map_err(|e| e.0)?;
        for (s, l) in [(0usize, "JOIN #c"), (1, "JOIN #c"), (0, "JOIN #d")] {
            w.send(s, l).map_err(|e| e.0)?;
        }
        w.take_all();
        let mut own = vec![];
        if let Some(l) = line {
            w.send(0, l).map_err(|e| e.0)?;
            own = w.take_lines(0);
        }
        if let Some(c) = w.conns.iter().find_map(|c| if let Life::Panicked(m) = &c.life { Some(m.clone()) } else { None }) {
            return Err(format!("panic: {}", c));
        }
        w.take_all();
        let mut answers = vec![];
        for q in ["TOPIC #c", "NAMES #c", "NAMES #d", "WHOIS ann", "WHOIS ann2", "MODE #c", "MODE #d", "PRIVMSG ann :are you away", "ISON ann ann2"] {
            w.send(2, q).map_err(|e| e.0)?;
            for l in w.take_lines(2) {
                answers.push(crate::canon::canon_line("irc.irc", &l));
            }
        }
        let h = crate::canon::hash128(&crate::canon::masked(&w.snapshot()));
        Ok((h, answers, own))
    };
    let (a, b, c) = (run(Some(with_extra)), run(Some(plain)), run(None));
    match (a, b, c) {
        (Ok(a), Ok(b), Ok(c)) => {
            let same_as_plain = a.0 == b.0 && a.1 == b.1;
            let refused = a.0 == c.0 && a.1 == c.1 && a.2.iter().any(|l| crate::canon::parse_server_line(l).map_or(false, |m| m.cmd.len() == 3 && m.cmd.starts_with(|ch: char| ch == '4' || ch == '5') || m.cmd.starts_with("ERROR")));
            if same_as_plain || refused {
                vec![]
            } else {
                let diff: Vec<(String, String)> = a.1.iter().zip(b.1.iter()).filter(|(x, y)| x != y).map(|(x, y)| (x.clone(), y.clone())).take(3).collect();
                vec![finding("arity:surplus-misread", format!("{:?} is neither treated like {:?} nor refused: differing answers afterwards (with surplus, without) {:?}; own replies {:?}", with_extra, plain, diff, a.2))]
            }
        }
        (a, b, c) => vec![finding("arity:surplus-machinery", format!("{:?}: {:?} / {:?} / {:?}", with_extra, a.err(), b.err(), c.err()))],
    }
}

const EXTRA_CASES: [(&str, &str); 14] = [
    ("TOPIC #c first second", "TOPIC #c first"),
    ("TOPIC #c first :second third", "TOPIC #c first"),
    ("topic #c third :fourth and fifth", "topic #c third"),
    ("AWAY gone fishing", "AWAY gone"),
    ("AWAY gone :for a while", "AWAY gone"),
    ("NICK ann2 extra", "NICK ann2"),
    ("KICK #c bob why extra", "KICK #c bob why"),
    ("PART #c bye extra", "PART #c bye"),
    ("JOIN #e key extra", "JOIN #e key"),
    ("MODE ann +i extra", "MODE ann +i"),
    ("INVITE cat #d extra", "INVITE cat #d"),
    ("QUIT bye extra", "QUIT bye"),
    ("PRIVMSG bob hi extra", "PRIVMSG bob hi"),
    ("OPER nobody pw extra", "OPER nobody pw"),
];

fn part_extra() -> PartResult {
    let t0 = Instant::now();
    let mut r = PartResult::new("fun:surplus-parameters", "E-FUN");
    for (a, b) in EXTRA_CASES {
        r.evaluations += 1;
        for f in case_extra(a, b) {
            r.violations.push(fv("fun:surplus-parameters", f, json!({"with_extra": a, "plain": b})));
        }
    }
    r.states = r.evaluations;
    r.transitions = r.evaluations * 3;
    r.distinct = r.evaluations;
    r.traces = r.evaluations * 3;
    r.exhaustive = true;
    r.samples = vec![json!({"with_extra": "TOPIC #c first second", "plain": "TOPIC #c first", "expect": "same topic afterwards (or an error and no change)"})];
    r.wall_s = t0.elapsed().as_secs_f64();
    r
}

/// "An invalid parameter is answered with an error, never silently misread": lines whose
/// parameter is not of the form its verb takes (a mode string without sign, a channel name
/// without its sigil, a limit that is no number ...) sent by the founder of a configured
/// channel. The sender gets an error line, nobody else hears anything, and the server ends
/// in the state it was in (masked snapshot equal to the one of the world that did not send).
pub fn case_invalid(line: &str) -> Vec<Finding> {
    let cfg = Cfg::default();
    let run = |line: Option<&str>| -> Result<(crate::state::verif::Snapshot, Vec<String>, Vec<String>), String> {
        let mut w = World::new(cfg.main_config(), 2);
        w.register(0, "ann", "au").map_err(|e| e.0)?;
        w.register(1, "bob", "bu").map_err(|e| e.0)?;
        for (s, l) in [(0usize, "JOIN #c"), (1, "JOIN #c"), (0, "MODE #c +ntl 5"), (0, "MODE #c +v bob"), (0, "MODE #c +b m!*@*"), (0, "MODE ann +w"), (0, "TOPIC #c :kept")] {
            w.send(s, l).map_err(|e| e.0)?;
        }
        w.take_all();
        let (mut own, mut other) = (vec![], vec![]);
        if let Some(l) = line {
            w.send(0, l).map_err(|e| e.0)?;
            own = w.take_lines(0);
            other = w.take_lines(1);
        }
        if let Some(c) = w.conns.iter().find_map(|c| if let Life::Panicked(m) = &c.life { Some(m.clone()) } else { None }) {
            return Err(format!("panic: {}", c));
        }
        Ok((crate::canon::masked(&w.snapshot()), own, other))
    };
    match (run(Some(line)), run(None)) {
        (Ok(a), Ok(b)) => {
            let mut out = vec![];
            if a.0 != b.0 {
                out.push(finding("invalid:misread", format!("{:?} has an invalid parameter but changed the server: replies {:?}", line, a.1)));
            }
            if !a.2.is_empty() {
                out.push(finding("invalid:misread", format!("{:?} has an invalid parameter but another member received {:?}", line, a.2)));
            }
            // 4xx/5xx, 696 (invalid mode parameter) or an ERROR line
            let is_err = |l: &String| crate::canon::parse_server_line(l).map_or(false, |m| (m.cmd.len() == 3 && (m.cmd.starts_with(|ch: char| ch == '4' || ch == '5') || m.cmd.starts_with("69"))) || m.cmd.starts_with("ERROR"));
            if !a.1.iter().any(is_err) {
                out.push(finding("invalid:silent", format!("{:?} has an invalid parameter but was answered {:?} (no error)", line, a.1)));
            }
            out
        }
        (Err(e), _) if e.starts_with("panic:") => vec![finding("invalid:panic", format!("{:?} aborted the connection task: {}", line, e))],
        (a, b) => vec![finding("invalid:machinery", format!("{:?}: {:?} / {:?}", line, a.err(), b.err()))],
    }
}

const INVALID_CASES: [&str; 27] = [
    // an empty channel name, alone or as an element of a list
    "PART #c, :bye", "JOIN #a,,#b", "JOIN :", "NAMES #c,", "TOPIC :", "KICK : bob", "MODE : +n", "INVITE bob :", "PART ,#c",
    "MODE #c nt", "MODE #c o bob", "MODE #c v bob", "MODE #c b", "MODE #c l", "MODE #c =n", "MODE ann w", "MODE ann i", "MODE ann =w",
    "mode #c nt", "MODE #c +l abc", "MODE #c +l -1", "JOIN c", "JOIN c,#d", "PART c", "TOPIC c :x", "KICK c bob", "INVITE bob c",
];

fn part_invalid() -> PartResult {
    let t0 = Instant::now();
    let mut r = PartResult::new("fun:invalid-parameters", "E-FUN");
    for l in INVALID_CASES {
        r.evaluations += 1;
        for f in case_invalid(l) {
            r.violations.push(fv("fun:invalid-parameters", f, json!({"line": l})));
        }
    }
    r.states = r.evaluations;
    r.transitions = r.evaluations * 2;
    r.distinct = r.evaluations;
    r.traces = r.evaluations * 2;
    r.exhaustive = true;
    r.samples = vec![json!({"line": "MODE #c nt", "expect": "an error line to the sender, +n and +t stay set, nobody else hears anything"})];
    r.wall_s = t0.elapsed().as_secs_f64();
    r
}

/// One relay case: `kind` carries `text`; the receiver's line re-parsed by the
/// reference yields the same verb, target and text.
pub fn case_relay(kind: &str, text: &str) -> Vec<Finding> {
    let mut out = vec![];
    let cfg = Cfg { opers: vec![SpecOper { name: "op".into(), password: "pw".into(), mask: None }], ..Default::default() };
    let mut w = World::new(cfg.main_config(), 2);
    macro_rules! m {
        ($e:expr) => {
            match $e {
                Ok(v) => v,
                Err(e) => return vec![finding("relay:stalled", e.0)],
            }
        };
    }
    m!(w.register(0, "ann", "au"));
    m!(w.register(1, "bob", "bu"));
    m!(w.send(0, "JOIN #c"));
    m!(w.send(1, "JOIN #c"));
    m!(w.send(0, "OPER op pw"));
    m!(w.send(1, "MODE bob +w"));
    w.take_all();
    // (line sent by ann, expected verb, expected params at bob)
    let (line, verb, params): (String, &str, Vec<String>) = match kind {
        "PRIVMSG" | "NOTICE" => (format!("{} #c :{}", kind, text), kind, vec!["#c".into(), text.into()]),
        "PRIVMSG-nick" => (format!("PRIVMSG bob :{}", text), "PRIVMSG", vec!["bob".into(), text.into()]),
        "PRIVMSG-middle" => {
            // text as a middle parameter (no ' :'), only possible without blanks / leading colon
            if text.is_empty() || text.contains(' ') || text.starts_with(':') {
                return out;
            }
            (format!("PRIVMSG bob {}", text), "PRIVMSG", vec!["bob".into(), text.into()])
        }
        "TOPIC" => {
            (format!("TOPIC #c :{}", text), "TOPIC", vec!["#c".into(), text.into()])
        }
        "PART" => (format!("PART #c :{}", text), "PART", vec!["#c".into(), text.into()]),
        "KICK" => {
            // an explicitly empty comment is a text like any other (a default comment is for a
            // KICK that gives none)
            (format!("KICK #c bob :{}", text), "KICK", vec!["#c".into(), "bob".into(), text.into()])
        }
        "WALLOPS" => (format!("WALLOPS :{}", text), "WALLOPS", vec![text.into()]),
        "AWAY" => {
            if text.is_empty() {
                return out;
            }
            // bob is away with `text` (the last text he sent: an earlier one is replaced); ann's
            // PRIVMSG is answered with 301 carrying it
            m!(w.send(1, "AWAY :an earlier text"));
            m!(w.send(1, &format!("AWAY :{}", text)));
            w.take_all();
            m!(w.send(0, "PRIVMSG bob :x"));
            let ls = w.take_lines(0);
            let ok = ls.iter().filter_map(|l| tokenize(l).ok()).any(|m| m.cmd == "301" && m.params.get(1).map(|s| s.as_str()) == Some("bob") && m.params.get(2).map(|s| s.as_str()) == Some(text));
            if !ok {
                out.push(finding("relay:away", format!("away text {:?} came back as {:?}", text, ls)));
            }
            return out;
        }
        // two relayed lines waiting for the same receiver when its task runs next: one
        // command with two targets reaching bob, and two commands in one segment
        "PRIVMSG-both" | "PRIVMSG-twice" => {
            if kind == "PRIVMSG-both" {
                m!(w.send(0, &format!("PRIVMSG #c,bob :{}", text)));
            } else {
                w.write_raw(0, format!("PRIVMSG bob :{}\r\nNOTICE #c :{}\r\n", text, text).as_bytes());
                m!(w.pump_socket(0));
                m!(w.settle());
            }
            let ls = w.take_lines(1);
            let parsed: Vec<Msg> = ls.iter().filter_map(|l| tokenize(l).ok()).collect();
            let want: Vec<(&str, &str)> = if kind == "PRIVMSG-both" { vec![("PRIVMSG", "#c"), ("PRIVMSG", "bob")] } else { vec![("PRIVMSG", "bob"), ("NOTICE", "#c")] };
            for (v, t) in want {
                let n = parsed.iter().filter(|m| m.cmd == v && m.params == vec![t.to_string(), text.to_string()] && m.prefix.as_deref().map_or(false, |p| p.starts_with("ann!"))).count();
                if n != 1 || parsed.len() != 2 {
                    out.push(finding(&format!("relay:{}", kind), format!("receiver got {:?}: not exactly the two messages sent ({} {} {:?} seen {} times)", ls, v, t, text, n)));
                    break;
                }
            }
            for c in w.conns.iter() {
                for l in c.raw.split(|b| *b == b'\n') {
                    if l.is_empty() {
                        continue;
                    }
                    if l[..l.len() - 1].contains(&b'\r') || l.last() != Some(&b'\r') {
                        out.push(finding("relay:framing", format!("server line with stray CR or bare LF: {:?}", String::from_utf8_lossy(l))));
                        break;
                    }
                }
            }
            return out;
        }
        "NICK" => ("NICK ann2".to_string(), "NICK", vec!["ann2".into()]),
        "INVITE" => {
            m!(w.send(1, "PART #c"));
            w.take_all();
            ("INVITE bob #c".to_string(), "INVITE", vec!["bob".into(), "#c".into()])
        }
        _ => return out,
    };
    m!(w.send(0, &line));
    let ls = w.take_lines(1);
    let parsed: Vec<Msg> = ls.iter().filter_map(|l| tokenize(l).ok()).collect();
    let hit = parsed.iter().any(|m| m.cmd.eq_ignore_ascii_case(verb) && m.params == params && m.prefix.as_deref().map_or(false, |p| p.starts_with("ann!")));
    if !hit {
        out.push(finding(&format!("relay:{}", kind), format!("sent {:?}; receiver got {:?}, which does not re-parse to {} {:?}", line, ls, verb, params)));
    }
    // every line the server emitted is one CRLF-terminated message
    for c in w.conns.iter() {
        if !c.raw.is_empty() && !c.raw.ends_with(b"\r\n") {
            out.push(finding("relay:framing", "server output does not end with CRLF".into()));
        }
        for l in c.raw.split(|b| *b == b'\n') {
            if l.is_empty() {
                continue;
            }
            if l[..l.len() - 1].contains(&b'\r') || l.last() != Some(&b'\r') {
                out.push(finding("relay:framing", format!("server line with stray CR or bare LF: {:?}", String::from_utf8_lossy(l))));
                break;
            }
        }
    }
    if w.conns.iter().any(|c| matches!(c.life, Life::Panicked(_))) {
        out.push(finding("relay:panic", format!("{:?} aborted a connection task", line)));
    }
    out
}

fn part_relay(max: u32) -> PartResult {
    let t0 = Instant::now();
    let mut r = PartResult::new("fun:relay", "E-FUN");
    let texts = all_strings(&['a', ' ', ':'], max);
    let kinds = ["PRIVMSG", "NOTICE", "PRIVMSG-nick", "PRIVMSG-middle", "TOPIC", "PART", "KICK", "WALLOPS", "AWAY", "PRIVMSG-both", "PRIVMSG-twice"];
    let mut cases: Vec<(String, String)> = vec![];
    for k in kinds {
        for t in &texts {
            cases.push((k.to_string(), t.clone()));
        }
    }
    cases.push(("NICK".into(), "".into()));
    cases.push(("INVITE".into(), "".into()));
    let n = cases.len() as u64;
    let res = par_ranges(n, threads(), 8, |a, b| {
        let mut v = vec![];
        for i in a..b {
            let (k, t) = &cases[i as usize];
            for f in case_relay(k, t) {
                v.push(fv("fun:relay", f, json!({"kind": k, "text": t})));
            }
        }
        v
    });
    for v in res {
        r.violations.extend(v);
    }
    r.violations.truncate(40);
    r.evaluations = n;
    r.states = n;
    r.transitions = n;
    r.distinct = n;
    r.traces = n;
    r.exhaustive = true;
    r.samples = vec![json!({"kind":"TOPIC","text":"a :a","expect":"receiver's line re-parses to TOPIC #c 'a :a'"})];
    r.extra = json!({"kinds": kinds, "texts": texts.len(), "text_alphabet": "a space :", "max_text_len": max});
    r.wall_s = t0.elapsed().as_secs_f64();
    r
}

pub fn replay_fun(scenario: &str, input: &Value) -> Vec<Finding> {
    if scenario == "fun:invalid-parameters" {
        return case_invalid(input["line"].as_str().unwrap_or(""));
    }
    if scenario == "fun:surplus-parameters" {
        return case_extra(input["with_extra"].as_str().unwrap_or(""), input["plain"].as_str().unwrap_or(""));
    }
    match scenario {
        "fun:tokenize" => case_tokenize(input["line"].as_str().unwrap_or("")),
        "fun:arity" => match (input["verb"].as_str(), input["arity"].as_u64()) {
            (Some(v), Some(a)) => case_arity(v, a as usize),
            _ => vec![],
        },
        "fun:relay" => case_relay(input["kind"].as_str().unwrap_or(""), input["text"].as_str().unwrap_or("")),
        _ => vec![],
    }
}

pub fn plan(quick: bool) -> Plan {
    let (lt, lr) = if quick { (8, 4) } else { (10, 5) };
    Plan {
        property: "C13".into(),
        rule: format!("(a) every string of length <= {} over {{A, a, space, ':', ',', '#'}} through the real Message::from_shared_str, compared (Debug rendering) with a reference tokenizer written from the RFC grammar wherever the reference deems the line well-formed; (b) 41 verbs in 3 letter cases + unknown verbs x arity 0..max+2 through Command::from_message (class Ok / NeedMoreParams / UnknownCommand / parameter error vs a table of minimum arities) and on the wire (461 / 421); (c) a 3-line payload cut at every 1 and 2 byte positions, lines around the 2000-byte limit followed by a normal line, empty and blank lines; (d) relay round trip: PRIVMSG (channel, nick, middle-parameter form), NOTICE, TOPIC, PART, KICK, WALLOPS, AWAY(301) with every text <= {} over {{a, space, ':'}} plus NICK and INVITE: the receiver's line re-parsed by the reference yields the same verb, target and text; every emitted byte stream is CRLF-terminated lines without stray CR/LF", lt, lr),
        assumptions: vec!["lines the reference deems malformed (':' inside the source, command beginning with ':') are only required not to crash".into()],
        parts: vec![
            Part::Custom("fun:tokenize".into(), Box::new(move || part_tokenize(lt))),
            Part::Custom("fun:arity".into(), Box::new(part_arity)),
            Part::Custom("fun:codec".into(), Box::new(part_codec)),
            Part::Custom("fun:relay".into(), Box::new(move || part_relay(lr))),
            Part::Custom("fun:surplus-parameters".into(), Box::new(part_extra)),
            Part::Custom("fun:invalid-parameters".into(), Box::new(part_invalid)),
        ],
    }
}
