//! C05 - no input can crash a session handler or the server.
//!
//! Bounded-exhaustive line grammar (verb x arity x parameter shapes) fed to the
//! real connection loop in ten session states; depth 1 (every line) and, in
//! the thorough tier, ordered pairs over a core alphabet.

use super::common::*;
use super::lim;
use crate::bfs::{Act, View};
use crate::canon::parse_server_line;
use crate::check::{Cat, Finding, Focus, StepObs};
use crate::run::{Part, Plan};
use crate::scn::{part, Cfg, ChatScn};
use crate::spec::{self, Actor, SpecOper, M};
use crate::world::{Life, World};
use std::collections::BTreeSet;

fn long(n: usize) -> String {
    "a".repeat(n)
}

/// Parameter shape menus.
fn chans(full: bool) -> Vec<String> {
    let mut v: Vec<String> = ["#c", "#z", "#nochan", "#c,#c", "#c,#nochan", "#nochan,#c", "#c,#z"].iter().map(|s| s.to_string()).collect();
    if full {
        v.extend(["", "#", "&", "&loc", "~&@%+#c", "@#c", "+#nochan", "#é"].iter().map(|s| s.to_string()));
        v.push(format!("#{}", long(300)));
    }
    v
}

fn nicks(full: bool) -> Vec<String> {
    let mut v: Vec<String> = ["me", "ME", "Bob", "bob", "zed", "ghost", "bob,bob", "me,bob", "bob,me", "me,me", "bob,yan,bob", "yan,bob", "bob,yan,me,yan"].iter().map(|s| s.to_string()).collect();
    if full {
        v.extend(["", "é", "*?*a*", "a.b", "ghost,ghost", "bob,ghost,bob"].iter().map(|s| s.to_string()));
        v.push(long(300));
    }
    v
}

fn masks(full: bool) -> Vec<String> {
    let mut v: Vec<String> = ["*", "bob", "*!*@*", "*abc*defghijklmnopqrstuvwxyz0123456789abcdefghijklmnopqrstuvwxyz", "?", "a*bcdefghijklmnopqrstuvwxyzabcdefghijklmnopqrstuvwxyz0123456789", "*????????????????????????????????????????????????????????????????"]
        .iter()
        .map(|s| s.to_string())
        .collect();
    if full {
        v.extend(["é?", "**?*a*b", "", "bob!*", "*@127.0.0.1", "?*?*?*", "*é*", "me!~au@127.0.0.1x", "*1x"].iter().map(|s| s.to_string()));
    }
    v
}

fn texts(full: bool) -> Vec<String> {
    let mut v: Vec<String> = [":hi", ":"].iter().map(|s| s.to_string()).collect();
    // long multi-byte text: a length cut at a byte offset must not land inside a character
    // (4-byte characters at the four alignments: any byte offset is a character boundary in
    // only one of them)
    for pre in ["", "a", "aa", "aaa"] {
        v.push(format!(":{}{}", pre, "\u{1F600}".repeat(400)));
    }
    if full {
        v.extend([":a b :c", ":é", "plain", "a:b"].iter().map(|s| s.to_string()));
        v.push(format!(":{}", long(1900)));
    }
    v
}

fn numbers() -> Vec<String> {
    ["0", "1", "3", "4294967296", "18446744073709551615", "18446744073709551616", "-1", "abc"].iter().map(|s| s.to_string()).collect()
}

fn chan_modestrings(full: bool) -> Vec<&'static str> {
    let mut v = vec!["+o", "-o", "+v", "-q", "+b", "-b", "+k", "-k", "+l", "-l", "+i", "-s", "+o-o+v", "+imstn"];
    if full {
        v.extend(["+h", "-h", "+a", "-a", "+q", "+e", "-e", "+I", "-I", "+lk", "+kl", "-lk", "+qaohv", "-qaohv", "-imstn", "+x", "+", "-", "+o+o", "+bb", "+ob", "-o+b", "+l-l", "+k-k", "+ol", "-vvv"]);
    }
    v
}

fn user_modestrings(full: bool) -> Vec<&'static str> {
    let mut v = vec!["+i", "-i", "+o", "-o", "+O", "-O", "+w", "-w"];
    if full {
        v.extend(["+r", "-r", "+oOiwr", "-oOiwr", "+x", "+", "-o+o", "+O-O", "-O+o-o", "+io-oi", "-w+w-w"]);
    }
    v
}

/// The whole line grammar. `me` is substituted by the actor's nickname.
pub fn grammar(full: bool) -> Vec<String> {
    let mut g: BTreeSet<String> = BTreeSet::new();
    let ch = chans(full);
    let nk = nicks(full);
    let mk = masks(full);
    let tx = texts(full);
    let nums = numbers();
    // every verb (and an unknown one) with arity 0..max+1 of generic tokens
    let verbs: [(&str, usize); 43] = [
        ("CAP", 2), ("AUTHENTICATE", 1), ("PASS", 1), ("NICK", 1), ("USER", 4), ("PING", 1), ("PONG", 1), ("OPER", 2), ("QUIT", 1),
        ("JOIN", 2), ("PART", 2), ("TOPIC", 2), ("NAMES", 1), ("LIST", 2), ("INVITE", 2), ("KICK", 3), ("MOTD", 1), ("VERSION", 1),
        ("ADMIN", 1), ("CONNECT", 3), ("LUSERS", 0), ("TIME", 1), ("STATS", 2), ("LINKS", 2), ("HELP", 1), ("INFO", 0), ("MODE", 3),
        ("PRIVMSG", 2), ("NOTICE", 2), ("WHO", 1), ("WHOIS", 2), ("WHOWAS", 3), ("KILL", 2), ("REHASH", 0), ("RESTART", 0), ("SQUIT", 2),
        ("AWAY", 1), ("USERHOST", 2), ("WALLOPS", 1), ("ISON", 2), ("DIE", 1), ("FOO", 2), ("privmsg", 2),
    ];
    let generic = ["#c", "bob", "me", "+o", "x.y", "1", ":t t", "*"];
    for (v, max) in verbs.iter() {
        for ar in 0..=(max + 1) {
            if ar == 0 {
                g.insert(v.to_string());
            } else if ar == 1 {
                for a in generic.iter() {
                    g.insert(format!("{} {}", v, a));
                }
            } else {
                // vary the first two positions, fill the rest
                for a in generic.iter() {
                    for b in generic.iter() {
                        let mut l = format!("{} {} {}", v, a, b);
                        for k in 2..ar {
                            l.push(' ');
                            l.push_str(generic[(k * 3) % generic.len()]);
                        }
                        g.insert(l);
                    }
                }
            }
        }
    }
    // shaped parameters per verb
    for c in &ch {
        g.insert(format!("JOIN {}", c));
        g.insert(format!("JOIN {} k", c));
        g.insert(format!("JOIN {} k,k", c));
        g.insert(format!("PART {}", c));
        g.insert(format!("PART {} :r", c));
        g.insert(format!("NAMES {}", c));
        g.insert(format!("LIST {}", c));
        g.insert(format!("WHO {}", c));
        g.insert(format!("TOPIC {}", c));
        for t in &tx {
            g.insert(format!("TOPIC {} {}", c, t));
            g.insert(format!("PRIVMSG {} {}", c, t));
            g.insert(format!("NOTICE {} {}", c, t));
        }
        for n in &nk {
            g.insert(format!("KICK {} {}", c, n));
            g.insert(format!("KICK {} {} :r", c, n));
            g.insert(format!("INVITE {} {}", n, c));
        }
        g.insert(format!("MODE {}", c));
        for ms in chan_modestrings(full) {
            g.insert(format!("MODE {} {}", c, ms));
            for n in nk.iter().take(if full { 8 } else { 4 }) {
                g.insert(format!("MODE {} {} {}", c, ms, n));
                if full {
                    g.insert(format!("MODE {} {} {} {}", c, ms, n, n));
                    g.insert(format!("MODE {} {} {} 5", c, ms, n));
                    g.insert(format!("MODE {} {} 5 {}", c, ms, n));
                }
            }
            for m in &mk {
                g.insert(format!("MODE {} {} {}", c, ms, m));
            }
            for x in &nums {
                g.insert(format!("MODE {} {} {}", c, ms, x));
            }
        }
    }
    for n in &nk {
        g.insert(format!("NICK {}", n));
        g.insert(format!("WHOIS {}", n));
        g.insert(format!("WHOWAS {}", n));
        g.insert(format!("ISON {}", n));
        g.insert(format!("USERHOST {}", n));
        g.insert(format!("KILL {} :x", n));
        g.insert(format!("OPER {} pw", n));
        g.insert(format!("OPER {} oppw", n));
        g.insert(format!("MODE {}", n));
        for ms in user_modestrings(full) {
            g.insert(format!("MODE {} {}", n, ms));
        }
        for t in &tx {
            g.insert(format!("PRIVMSG {} {}", n, t));
            g.insert(format!("NOTICE {} {}", n, t));
        }
        for x in &nums {
            g.insert(format!("WHOWAS {} {}", n, x));
        }
    }
    for m in &mk {
        g.insert(format!("WHO {}", m));
        g.insert(format!("WHOIS {}", m));
        g.insert(format!("WHOIS {},{}", m, m));
    }
    for t in &tx {
        g.insert(format!("AWAY {}", t));
        g.insert(format!("WALLOPS {}", t));
        g.insert(format!("DIE {}", t));
        g.insert(format!("SQUIT irc.irc {}", t));
        g.insert(format!("QUIT {}", t));
        g.insert(format!("USER u 0 * {}", t));
    }
    for x in &nums {
        g.insert(format!("CAP LS {}", x));
        g.insert(format!("CONNECT a.b {}", x));
    }
    for l in ["MODE #pre", "MODE #pre +b", "MODE #pre -b", "MODE #pre +e", "MODE #pre +I", "MODE #pre b", "MODE #pre -b evil*!*@*", "MODE #pre +b evil*!*@*", "MODE #pre -e evil1!*@*", "MODE #pre -o me", "MODE #pre -v bob", "MODE #pre +o ghost", "TOPIC #pre", "TOPIC #pre :", "NAMES #pre", "LIST #pre", "WHO #pre", "PART #pre", "JOIN #pre", "KICK #pre bob", "KICK #pre me", "INVITE zed #pre", "PRIVMSG @#pre :x", "PRIVMSG +#pre :x", "PRIVMSG #pre :x", "PART #solo", "KICK #solo me", "PART #solo,#pre", "JOIN #solo", "NAMES #solo",
        // a configured channel nobody has touched yet and that has no rank lists at all
        "PRIVMSG @#bare :x", "NOTICE ~#bare :x", "PRIVMSG @+#bare :x", "PRIVMSG %#bare :x", "NOTICE +#bare :x", "PRIVMSG &#bare :x", "JOIN #bare", "NAMES #bare", "WHO #bare", "MODE #bare", "PRIVMSG ~#solo :x", "NOTICE &#solo :x",
        // arguments that only the trailing form can carry (blanks inside a limit, key or mask)
        "MODE #c +l :25 ", "MODE #c +l : 7", "MODE #c +k :k k", "MODE #c +b :m m!*@*", "JOIN #c :k k", "MODE #c +o :bob ", "WHOWAS bob : 1", "LIST : #c", "KICK #c :bob "] {
        g.insert(l.to_string());
    }
    for l in ["CAP LS 302", "CAP LIST", "CAP REQ :multi-prefix", "CAP REQ :foo", "CAP REQ", "CAP END", "CAP", "OPER op oppw", "OPER op bad", ":src PRIVMSG bob :x", ":a!b PING x", ":a@b!c PING x", ": PING x", ":", " ", "", "PING", "   PING   x   ", "STATS u", "STATS m", "STATS x", "STATS uu", "HELP", "HELP MAIN", "HELP NOPE", "PASS x", "PASS :", "USER", "USER a b c", "USER a.b 0 * :r", "USER #a 0 * :r", "NICK #a", "NICK a:b", "LINKS a.b *.c", "LINKS a b", "SQUIT other.net :x", "TIME a.b", "TIME ab", "MOTD a.b", "VERSION *", "ADMIN x"] {
        g.insert(l.to_string());
    }
    g.into_iter().collect()
}

/// Raw byte payloads (each is written as one TCP segment).
pub fn raw_payloads() -> Vec<Vec<u8>> {
    let mut v: Vec<Vec<u8>> = vec![
        b"PING \xff\xfe\r\n".to_vec(),
        b"\xc3\x28\r\n".to_vec(),
        b"PING a\0b\r\n".to_vec(),
        b"PING x\rPING y\r\n".to_vec(),
        b"\r\n\r\n\r\n".to_vec(),
        b"\n".to_vec(),
        b"PING x\nPING y\nPING z\n".to_vec(),
        // several commands in one segment: the second is handled before any other connection
        // has reacted to the first (a killed peer is still winding up, a kicked one still queued)
        b"KILL bob :x\r\nKILL bob :y\r\nKILL bob :z\r\n".to_vec(),
        b"KICK #c bob\r\nKICK #c bob\r\nMODE #c +v bob\r\n".to_vec(),
        b"PART #c\r\nPART #c\r\nPRIVMSG #c :x\r\nJOIN #c\r\nJOIN #c\r\n".to_vec(),
        b"NICK myself\r\nNICK me\r\nNICK myself\r\nMODE me +i\r\nMODE myself +i\r\n".to_vec(),
        b"INVITE zed #c\r\nINVITE zed #c\r\nKICK #c zed\r\nMODE #c +o zed\r\n".to_vec(),
        b"WALLOPS :a\r\nKILL yan :x\r\nWALLOPS :b\r\nPRIVMSG yan :x\r\nWHOIS yan\r\n".to_vec(),
    ];
    let mut l = vec![b'a'; 2001];
    l.extend_from_slice(b"\r\nPING after\r\n");
    v.push(l);
    let mut l = b"PRIVMSG bob :".to_vec();
    l.extend(vec![b'x'; 4000]);
    l.extend_from_slice(b"\r\n");
    v.push(l);
    let mut l = vec![b'b'; 1998];
    l.extend_from_slice(b"\r\nPING after\r\n");
    v.push(l);
    v
}

#[derive(Clone, Copy, Debug, PartialEq, Eq)]
pub enum Sess {
    Unregistered,
    MidCap,
    Alone,
    Plain,
    Voice,
    HalfOp,
    Op,
    Founder,
    ServerOper,
    PeersLeft,
}

pub const SESSIONS: [Sess; 10] = [Sess::Unregistered, Sess::MidCap, Sess::Alone, Sess::Plain, Sess::Voice, Sess::HalfOp, Sess::Op, Sess::Founder, Sess::ServerOper, Sess::PeersLeft];

fn session_scn(sess: Sess, full: bool, pairs: bool) -> ChatScn {
    let cfg = Cfg {
        label: "oper+preconfigured-#pre".into(),
        opers: vec![SpecOper {
            name: "op".into(),
            password: "oppw".into(),
            mask: None,
        }],
        // a channel declared in the configuration, with every list and rank list filled
        // (what start-up creates differs from what commands create)
        channels: vec![crate::scn::CfgChan {
            name: "#pre".into(),
            topic: Some("configured".into()),
            ban: vec!["evil*!*@*".into()],
            exception: vec!["evil1!*@*".into()],
            invite_exception: vec!["zed!*@*".into()],
            operators: vec!["me".into(), "ghost".into()],
            voices: vec!["bob".into(), "me".into()],
            ..Default::default()
        }, crate::scn::CfgChan {
            // a configured channel the actor is alone on: leaving it empties it, and it stays
            name: "#solo".into(),
            operators: vec!["me".into()],
            ..Default::default()
        }, crate::scn::CfgChan {
            // declared with a name only: whatever start-up leaves unset stays unset until used
            name: "#bare".into(),
            ..Default::default()
        }],
        ..Default::default()
    };
    // slot 0 = actor "me" (registered in most sessions), 1 = bob, 2,3 = bystanders yan, zed in #z
    // zed registers with an empty real name (the server accepts it): whatever compares real
    // names compares an empty text
    let mut parts = vec![part(1, "bob", "bobby", "bu"), part(2, "yan", "yanni", "yu"), crate::scn::late_part(3, "zed", "zeddy", "zu")];
    let actor_registered = !matches!(sess, Sess::Unregistered | Sess::MidCap);
    if actor_registered {
        parts.insert(0, part(0, "me", "myself", "au"));
    }
    let mut s = ChatScn::new(&format!("c05-{:?}{}", sess, if pairs { if full { "-pairs" } else { "-minipairs" } } else { "" }), cfg, parts, 0);
    s.slots = 4;
    s.prelude.push((3, "NICK zed".into()));
    s.prelude.push((3, "USER zu 8 * :".into()));
    s.prelude.push((2, "JOIN #z".into()));
    s.prelude.push((3, "JOIN #z".into()));
    // the bystanders' channel is invite-only and moderated: the actor, an outsider there, names
    // it in INVITE, KICK, TOPIC, MODE ... all the same
    s.prelude.push((2, "MODE #z +im".into()));
    // bob has a nick history (one record for "bob", one for "bobby"): history-reading
    // commands with counts below, at and above the number of records
    s.prelude.push((1, "NICK bobby".into()));
    s.prelude.push((1, "NICK bob".into()));
    // bystander yan is also a plain member of #c (so that lists can name two
    // different members of the actor's channel)

    match sess {
        Sess::Unregistered | Sess::MidCap | Sess::Alone => {
            s.prelude.push((1, "JOIN #c".into()));
        }
        Sess::Plain | Sess::Voice | Sess::HalfOp | Sess::Op => {
            s.prelude.push((1, "JOIN #c".into()));
            s.prelude.push((0, "JOIN #c".into()));
            match sess {
                Sess::Voice => s.prelude.push((1, "MODE #c +v me".into())),
                Sess::HalfOp => s.prelude.push((1, "MODE #c +h me".into())),
                Sess::Op => s.prelude.push((1, "MODE #c +o me".into())),
                _ => {}
            }
        }
        Sess::Founder | Sess::ServerOper | Sess::PeersLeft => {
            s.prelude.push((0, "JOIN #c".into()));
            s.prelude.push((1, "JOIN #c".into()));
            if sess == Sess::ServerOper {
                s.prelude.push((0, "OPER op oppw".into()));
                s.prelude.push((0, "MODE me +w".into()));
                s.prelude.push((1, "MODE bob +w".into()));
            }
            if sess == Sess::PeersLeft {
                s.prelude.push((1, "PART #c".into()));
            }
        }
    }
    s.prelude.push((2, "JOIN #c".into()));
    if actor_registered {
        s.prelude.push((0, "JOIN #pre".into()));
        s.prelude.push((0, "JOIN #solo".into()));
    }
    s.prelude.push((1, "JOIN #pre".into()));
    let lines = grammar(full);
    let core: Vec<String> = if pairs {
        if full {
            core_lines()
        } else {
            mini_core()
        }
    } else {
        vec![]
    };
    let raws = raw_payloads();
    s.extra_actions = Some(Box::new(move |_scn, v| {
        let mut acts = vec![];
        if v.depth == 0 && !actor_registered && v.life[0] == Life::Unconnected {
            return vec![Act::Connect(0)];
        }
        if v.life[0] != Life::Live {
            return acts;
        }
        let depth_of_lines = if actor_registered { 0 } else { 1 };
        if v.depth == depth_of_lines {
            if sess == Sess::MidCap && v.infos[0].as_ref().map_or(true, |i| !i.caps_negotation) {
                return vec![Act::Send(0, "CAP LS 302".into())];
            }
        }
        let base = if sess == Sess::MidCap { depth_of_lines + 1 } else { depth_of_lines };
        if v.depth == base {
            let src: &Vec<String> = if pairs { &core } else { &lines };
            for l in src {
                acts.push(Act::Send(0, l.clone()));
            }
            if !pairs {
                for r in &raws {
                    acts.push(Act::Raw(0, r.clone()));
                }
                acts.push(Act::EofPartial(0, "PRIVMSG bob :unterminated".into()));
                acts.push(Act::Eof(0));
            }
        } else if pairs && v.depth > base {
            // further levels of the pairs/triples search (the depth bound ends it)
            for l in &core {
                acts.push(Act::Send(0, l.clone()));
            }
        }
        acts
    }));
    s.focus = Focus::state_only(&[]);
    s.spec_skip = Some(Box::new(|_| true));
    s.step_oracle = Some(Box::new(no_crash_step));
    s.after_step = Some(Box::new(still_serving));
    s.goals = vec!["reply-seen", "state-changed", "closed-legitimately"];
    s
}

/// A smaller alphabet for ordered pairs: one or two lines per handler that
/// change state, plus the lines that were seen to be delicate.
fn core_lines() -> Vec<String> {
    [
        "JOIN #c", "JOIN #n", "JOIN #c,#n", "PART #c", "PART #n", "KICK #c bob", "KICK #c me", "KICK #c bob,me", "KICK #n me", "MODE #c +o bob", "MODE #c -o me", "MODE #c -q me",
        "MODE #c +v me", "MODE #c +b *!*@*", "MODE #c +b me", "MODE #c -b me", "MODE #c +e *", "MODE #c +I me", "MODE #c +i", "MODE #c +l 1", "MODE #c +k k", "MODE #c -k",
        "MODE #c +m", "MODE #c +s", "MODE #c +n", "MODE #c +t", "TOPIC #c :t", "TOPIC #c :", "INVITE bob #c", "INVITE bob #n", "INVITE me #c", "NICK myself", "NICK bob", "NICK me",
        "MODE me +i", "MODE me -i", "MODE me +w", "MODE me -o", "MODE me -O", "MODE me +o", "MODE me +O", "MODE myself +i", "OPER op oppw", "OPER op bad", "AWAY :gone", "AWAY",
        "PRIVMSG #c :x", "PRIVMSG @#c :x", "PRIVMSG @+#c :x", "PRIVMSG bob,#c,me :x", "NOTICE #c :x", "WHO #c", "WHO *", "WHO me*", "WHOIS me", "WHOIS myself,bob", "WHOWAS me", "NAMES", "NAMES #c",
        "LIST", "LUSERS", "WALLOPS :w", "KILL bob :x", "KILL me :x", "KILL ghost :x", "ISON me bob", "USERHOST me myself", "STATS u", "PING x", "PONG x", "CAP REQ :multi-prefix", "CAP END",
        "PASS x", "USER u 0 * :r", "QUIT", "DIE", "SQUIT irc.irc :x",
    ]
    .iter()
    .map(|s| s.to_string())
    .collect()
}

/// Quick tier: ordered pairs over the lines that re-key or remove state.
fn mini_core() -> Vec<String> {
    [
        "NICK myself", "NICK me", "MODE me +w", "MODE me -w", "MODE me +i", "WALLOPS :w", "JOIN #n", "PART #c", "KICK #c bob", "KICK #c me", "KICK #c bob,yan,me", "MODE #c +o bob", "MODE #c -o me", "MODE #c +v yan",
        "PRIVMSG @+#c :x", "PRIVMSG +#c :x", "WHO *", "WHOIS myself,bob", "NAMES", "LUSERS", "KILL bob :x", "MODE #c +b me", "INVITE zed #c", "TOPIC #c :t", "QUIT",
    ]
    .iter()
    .map(|s| s.to_string())
    .collect()
}

fn no_crash_step(_scn: &ChatScn, pre: &View, obs: &StepObs, post: &View, goals: &mut BTreeSet<String>) -> Vec<Finding> {
    let mut out = vec![];
    for (i, l) in post.life.iter().enumerate() {
        if let Life::Panicked(msg) = l {
            if !matches!(pre.life[i], Life::Panicked(_)) {
                let loc = msg.rsplit(" @ ").next().unwrap_or("").rsplit('/').next().unwrap_or("").to_string();
                out.push(Finding {
                    sig: format!("panic:{}", loc),
                    detail: format!("connection task {} aborted abnormally handling {:?}: {}", i, obs.act.render(), msg),
                });
            }
        }
    }
    if !out.is_empty() {
        return out;
    }
    if obs.lines.iter().any(|l| !l.is_empty()) {
        goals.insert("reply-seen".into());
    }
    if crate::canon::masked(&obs.pre) != crate::canon::masked(&obs.post) {
        goals.insert("state-changed".into());
    }
    // which connections may the protocol end with this input?
    let actor = obs.act.actor().unwrap_or(0);
    let mut may_close: BTreeSet<usize> = BTreeSet::new();
    let mut all_may_close = false;
    match &obs.act {
        Act::Eof(_) | Act::EofPartial(_, _) => {
            may_close.insert(actor);
        }
        Act::Raw(_, b) => {
            // bytes that are not valid text / an over-long line may close that one connection
            let bad = std::str::from_utf8(b).is_err() || b.split(|c| *c == b'\n').any(|l| l.len() > crate::world::MAX_LINE);
            if bad {
                may_close.insert(actor);
            } else if let (Ok(text), Some(info)) = (std::str::from_utf8(b), obs.pre_infos[actor].as_ref()) {
                // several well-formed commands in one segment: what each of them may end
                let m = M::from_snapshot(&obs.pre);
                let is_oper = info.nick.as_ref().and_then(|n| m.users.get(n)).map_or(false, |u| u.o);
                for line in text.split('\n') {
                    let mut it = line.trim().split(' ').filter(|x| !x.is_empty());
                    let verb = it.next().unwrap_or("").to_ascii_uppercase();
                    match verb.as_str() {
                        "QUIT" => {
                            may_close.insert(actor);
                        }
                        "KILL" if is_oper => {
                            if let Some(t) = it.next() {
                                for (i, inf) in obs.pre_infos.iter().enumerate() {
                                    if inf.as_ref().map_or(false, |x| x.nick.as_deref() == Some(t)) {
                                        may_close.insert(i);
                                    }
                                }
                            }
                        }
                        "DIE" | "SQUIT" if is_oper => all_may_close = true,
                        _ => {}
                    }
                }
            }
        }
        Act::Send(_, line) | Act::SendHeldFirst(_, line) => {
            if line.len() + 2 > crate::world::MAX_LINE {
                may_close.insert(actor);
            }
            let verb = line.trim_start().trim_start_matches(|c: char| c == ':').split(' ').next().unwrap_or("").to_ascii_uppercase();
            let m = M::from_snapshot(&obs.pre);
            if let Some(info) = obs.pre_infos[actor].as_ref() {
                let a = Actor {
                    nick: info.nick.as_deref(),
                    info,
                };
                if let Some(e) = spec::step(&m, &crate::spec::SpecCfg {
                    opers: vec![SpecOper { name: "op".into(), password: "oppw".into(), mask: None }],
                    ..Default::default()
                }, &a, line) {
                    if e.actor_closed || e.actor_close_optional {
                        may_close.insert(actor);
                    }
                    for n in &e.closed {
                        for (i, inf) in obs.pre_infos.iter().enumerate() {
                            if inf.as_ref().map_or(false, |x| x.nick.as_deref() == Some(n.as_str())) {
                                may_close.insert(i);
                            }
                        }
                    }
                }
                // QUIT with any parameters and in any letter case ends the session
                if verb == "QUIT" {
                    may_close.insert(actor);
                }
                let is_oper = info.nick.as_ref().and_then(|n| m.users.get(n)).map_or(false, |u| u.o);
                if is_oper && (verb == "DIE" || verb == "SQUIT") {
                    all_may_close = true;
                }
            }
        }
        _ => {}
    }
    for i in 0..post.life.len() {
        if pre.life[i] == Life::Live && post.life[i] != Life::Live {
            if all_may_close || may_close.contains(&i) {
                goals.insert("closed-legitimately".into());
            } else {
                out.push(Finding {
                    sig: "closed".into(),
                    detail: format!("connection {} was closed by {:?} although the protocol does not end it ({:?})", i, obs.act.render(), post.life[i]),
                });
            }
        }
    }
    out
}

/// After the input: the sender (if still open) and the bystanders are served.
fn still_serving(_scn: &ChatScn, w: &mut World, _pre: &View, obs: &StepObs, post: &View, _goals: &mut BTreeSet<String>) -> Vec<Finding> {
    let mut out = vec![];
    let mut check_ping = |w: &mut World, slot: usize, out: &mut Vec<Finding>| {
        if w.conns[slot].life != Life::Live || w.conns[slot].client_closed {
            return;
        }
        let registered = post.registered(slot);
        w.take_lines(slot);
        match w.send(slot, "PING livecheck") {
            Err(e) => out.push(finding("stalled", format!("connection {} stalled after {:?}: {}", slot, obs.act.render(), e.0))),
            Ok(()) => {
                let ls = w.take_lines(slot);
                if let Life::Panicked(m) = &w.conns[slot].life {
                    out.push(finding("panic:liveness", format!("connection {} panicked on PING after {:?}: {}", slot, obs.act.render(), m)));
                    return;
                }
                let ok = ls.iter().any(|l| (registered && l.contains("PONG") && l.contains("livecheck")) || (!registered && l.contains(" 451 ")));
                if !ok && w.conns[slot].life == Life::Live {
                    out.push(finding("unserved", format!("connection {} got no answer to PING after {:?}: {:?}", slot, obs.act.render(), ls)));
                }
            }
        }
    };
    let actor = obs.act.actor().unwrap_or(0);
    // codec-dead connections are about to be closed, nothing to ask them
    check_ping(w, actor, &mut out);
    for s in [1usize, 2, 3] {
        if s != actor {
            check_ping(w, s, &mut out);
        }
    }
    // bystanders 2 and 3 exchange a message through #z
    if w.conns[2].life == Life::Live && w.conns[3].life == Life::Live && post.registered(2) && post.registered(3) {
        w.take_lines(3);
        match w.send(2, "PRIVMSG #z :bystander-check") {
            Err(e) => out.push(finding("stalled", format!("bystander stalled after {:?}: {}", obs.act.render(), e.0))),
            Ok(()) => {
                let ls = w.take_lines(3);
                let still_members = post.m.chans.get("#z").map_or(false, |c| {
                    let a = post.nick(2).map_or(false, |n| c.members.contains_key(n));
                    let b = post.nick(3).map_or(false, |n| c.members.contains_key(n));
                    a && b
                });
                if still_members && !ls.iter().any(|l| l.contains("bystander-check")) {
                    out.push(finding("bystander-deprived", format!("bystander did not receive a channel message after {:?}: {:?}", obs.act.render(), ls)));
                }
            }
        }
    }
    // a bystander looks at the actor and at the actor's peer: what the line left behind
    // must not bring down somebody else's handler
    if w.conns[2].life == Life::Live && post.registered(2) {
        let mut targets: Vec<String> = vec![];
        for slot in [actor, 1usize] {
            if let Some(n) = post.nick(slot) {
                // only names a WHOIS parameter can carry (the grammar also makes nicknames with blanks)
                let plain = !n.is_empty() && n.chars().all(|c| c.is_ascii_alphanumeric());
                if plain && post.m.users.contains_key(n) && !targets.contains(&n.to_string()) {
                    targets.push(n.to_string());
                }
            }
        }
        // a wildcard query that begins with a literal and matches nobody: every user's
        // nickname, source and real name (which may be empty) is compared with it
        w.take_lines(2);
        match w.send(2, "WHO q*") {
            Err(e) => out.push(finding("stalled", format!("bystander stalled on WHO q* after {:?}: {}", obs.act.render(), e.0))),
            Ok(()) => {
                let ls = w.take_lines(2);
                if w.conns[2].life == Life::Live && !ls.iter().any(|l| l.contains(" 315 ")) {
                    out.push(finding("bystander-deprived", format!("bystander's WHO q* was not answered after {:?}: {:?}", obs.act.render(), ls)));
                }
            }
        }
        for t in targets {
            w.take_lines(2);
            match w.send(2, &format!("WHOIS {}", t)) {
                Err(e) => out.push(finding("stalled", format!("bystander stalled on WHOIS {} after {:?}: {}", t, obs.act.render(), e.0))),
                Ok(()) => {
                    let ls = w.take_lines(2);
                    if w.conns[2].life == Life::Live && !ls.iter().any(|l| l.contains(" 318 ")) {
                        out.push(finding("bystander-deprived", format!("bystander's WHOIS {} was not answered after {:?}: {:?}", t, obs.act.render(), ls)));
                    }
                }
            }
        }
    }
    for (i, c) in w.conns.iter().enumerate() {
        if let Life::Panicked(m) = &c.life {
            if !matches!(post.life[i], Life::Panicked(_)) {
                out.push(finding("panic:followup", format!("connection {} panicked in the liveness round after {:?}: {}", i, obs.act.render(), m)));
            }
        }
    }
    out
}

/// No crash and no deprived bystander after a contended registration (see
/// ghost.rs): the winner of the nickname and the registered bystander keep
/// being served whatever the refused or unfinished connection does.
pub fn ghost(full: bool) -> ChatScn {
    let mut s = super::ghost::ghost_scn("c05-ghost", &[crate::check::Cat::UserExistence, crate::check::Cat::Membership], full);
    for slot in [1usize, 2] {
        for t in ["AWAY :a", "PRIVMSG alice :x", "WHOIS bob", "MODE bob +i", "PART #x"] {
            s.alphabet_for.push((slot, t));
        }
    }
    s.after_step = Some(Box::new(|_scn, w, _pre, obs, post, goals| {
        let mut out = vec![];
        for slot in 0..3 {
            if w.conns[slot].life != Life::Live || w.conns[slot].client_closed {
                continue;
            }
            let registered = post.registered(slot);
            w.take_lines(slot);
            match w.send(slot, "PING livecheck") {
                Err(e) => out.push(finding("stalled", format!("connection {} stalled after {:?}: {}", slot, obs.act.render(), e.0))),
                Ok(()) => {
                    let ls = w.take_lines(slot);
                    if let Life::Panicked(m) = &w.conns[slot].life {
                        out.push(finding("panic:liveness", format!("connection {} panicked on PING after {:?}: {}", slot, obs.act.render(), m)));
                        continue;
                    }
                    let ok = ls.iter().any(|l| (registered && l.contains("PONG") && l.contains("livecheck")) || (!registered && l.contains(" 451 ")));
                    if ok {
                        goals.insert("reply-seen".into());
                    } else if w.conns[slot].life == Life::Live {
                        out.push(finding("unserved", format!("connection {} got no answer to PING after {:?}: {:?}", slot, obs.act.render(), ls)));
                    }
                }
            }
        }
        out
    }));
    let base = s.step_oracle.take();
    s.step_oracle = Some(Box::new(move |scn, pre, obs, post, goals| {
        let mut out = no_crash_step(scn, pre, obs, post, goals);
        if let Some(b) = &base {
            out.extend(b(scn, pre, obs, post, goals));
        }
        out
    }));
    s
}

// ---------------------------------------------------------------------------
// back-pressure: a client that stops reading its socket

/// One back-pressure case: connection 0 (socket buffer `cap` bytes, a member of #c)
/// sends `line` while it does not read; then the bystanders act.
#[derive(Clone)]
pub struct StallCase {
    pub cap: usize,
    pub line: String,
}

fn repeat_to_fit(verb: &str, item: &str, n: usize, tail: &str) -> String {
    let mut items: Vec<String> = vec![];
    let mut len = verb.len() + 1 + tail.len();
    for _ in 0..n {
        if len + item.len() + 1 > 1900 {
            break;
        }
        len += item.len() + 1;
        items.push(item.to_string());
    }
    format!("{} {}{}", verb, items.join(","), tail)
}

pub fn stall_cases(full: bool) -> Vec<StallCase> {
    let mut lines: Vec<String> = vec![];
    let sizes: Vec<usize> = if full { vec![1, 20, 150, 700] } else { vec![20, 700] };
    for n in &sizes {
        lines.push(repeat_to_fit("NAMES", "#c", *n, ""));
        lines.push(repeat_to_fit("JOIN", "#d", *n, ""));
        lines.push(repeat_to_fit("PART", "#nochan", *n, " :bye"));
        lines.push(repeat_to_fit("WHOIS", "bob", *n, ""));
        lines.push(repeat_to_fit("PRIVMSG", "ghost", *n, " :x"));
        lines.push(repeat_to_fit("KICK #c", "ghost", *n, ""));
        if full {
            lines.push(repeat_to_fit("WHOWAS", "bob", *n, ""));
            lines.push(repeat_to_fit("TOPIC", "#c", *n, ""));
            lines.push(repeat_to_fit("LIST", "#c", *n, ""));
            lines.push(repeat_to_fit("NOTICE", "#c", *n, " :x"));
        }
    }
    for l in ["MOTD", "HELP", "HELP MODE", "INFO", "LIST", "WHO *", "WHO #c", "LUSERS", "MODE #c +b", "VERSION", "LINKS"] {
        lines.push(l.to_string());
    }
    // at least one maximal input line must fit (the same buffer size serves both directions)
    let caps: Vec<usize> = if full { vec![2560, 4096, 65536] } else { vec![2560, 16384] };
    let mut out = vec![];
    for cap in caps {
        for l in &lines {
            out.push(StallCase { cap, line: l.clone() });
        }
    }
    out
}

fn canon_transcript(lines: &[String]) -> Vec<String> {
    // the harness's canonical form: member lists sorted, wall-clock fields masked
    crate::canon::canon_lines("irc.irc", lines)
}

struct StallRun {
    blocked: Vec<(usize, String)>,
    actor_blocked: bool,
    resumed: bool,
    transcripts: Vec<Vec<String>>,
    panics: Vec<String>,
    bytes_to_actor: usize,
}

fn run_stall(case: &StallCase, stalled: bool) -> Result<StallRun, crate::world::MachineryError> {
    let mut w = World::new(Cfg::default().main_config(), 3);
    w.connect_cap(0, case.cap)?;
    w.send(0, "NICK alice")?;
    w.send(0, "USER au 8 * :Real au")?;
    w.register(1, "bob", "bu")?;
    w.register(2, "carol", "cu")?;
    w.send(0, "JOIN #c")?;
    w.send(1, "JOIN #c")?;
    w.take_all();
    let raw0 = w.conns[0].raw.len();
    w.conns[0].stalled = stalled;
    let actor_blocked = w.send_observe_block(0, &case.line)?;
    let mut blocked = vec![];
    for (slot, l) in [(1usize, "PRIVMSG #c :one"), (2, "JOIN #p"), (1, "JOIN #p"), (2, "PING t"), (1, "TOPIC #c :t"), (2, "NICK caro"), (1, "PRIVMSG alice :two"), (2, "NAMES #c")] {
        if w.send_observe_block(slot, l)? {
            blocked.push((slot, l.to_string()));
        }
    }
    let resumed = w.resume(0)?;
    for i in 1..3 {
        if w.conns[i].blocked {
            // the bystander runs on once the stalled reader is gone: keep its transcript comparable
            let _ = w.resume(i)?;
        }
    }
    let transcripts: Vec<Vec<String>> = w.take_all().iter().map(|t| canon_transcript(t)).collect();
    let mut panics = vec![];
    for (i, c) in w.conns.iter().enumerate() {
        if let Life::Panicked(msg) = &c.life {
            panics.push(format!("connection {} aborted: {}", i, msg));
        }
    }
    let bytes_to_actor = w.conns[0].raw.len() - raw0;
    Ok(StallRun { blocked, actor_blocked, resumed, transcripts, panics, bytes_to_actor })
}

pub fn stall_case_findings(case: &StallCase) -> (Vec<Finding>, bool, usize) {
    let mk = |sig: &str, detail: String| Finding { sig: sig.to_string(), detail };
    let control = match run_stall(case, false) {
        Ok(r) => r,
        Err(e) => return (vec![mk("machinery", e.0)], false, 0),
    };
    let run = match run_stall(case, true) {
        Ok(r) => r,
        Err(e) => return (vec![mk("machinery", e.0)], false, 0),
    };
    let mut f = vec![];
    if control.actor_blocked || !control.blocked.is_empty() {
        f.push(mk("machinery", format!("control run (everybody reads) blocked: actor {} bystanders {:?}", control.actor_blocked, control.blocked)));
    }
    for p in run.panics.iter().chain(control.panics.iter()) {
        f.push(mk("panic", p.clone()));
    }
    for (slot, l) in &run.blocked {
        f.push(mk("stalled-reader:bystander-starved", format!("while connection 0 does not read the {} bytes answering {:?} (socket buffer {}), connection {} gets no answer to {:?}: its task waits for something the stalled connection holds", control.bytes_to_actor, short(&case.line), case.cap, slot, l)));
    }
    if !run.resumed {
        f.push(mk("stalled-reader:no-recovery", format!("connection 0 reads again after {:?} but its task never returns to serving it", short(&case.line))));
    }
    if run.blocked.is_empty() && run.resumed {
        for i in 0..3 {
            if run.transcripts[i] != control.transcripts[i] {
                let missing: Vec<&String> = control.transcripts[i].iter().filter(|l| !run.transcripts[i].contains(l)).take(3).collect();
                let extra: Vec<&String> = run.transcripts[i].iter().filter(|l| !control.transcripts[i].contains(l)).take(3).collect();
                f.push(mk("stalled-reader:deprived", format!("connection {} receives different lines when connection 0 pauses reading during {:?}: missing {:?} extra {:?}", i, short(&case.line), missing, extra)));
            }
        }
    }
    (f, run.actor_blocked, control.bytes_to_actor)
}

fn short(l: &str) -> String {
    if l.len() > 60 {
        format!("{}... ({} bytes)", &l[..50], l.len())
    } else {
        l.to_string()
    }
}

pub fn stall_part(quick: bool) -> crate::run::PartResult {
    use crate::bfs::Violation;
    use crate::run::PartResult;
    let t0 = std::time::Instant::now();
    let name = "fun:c05-stalled-reader";
    let mut r = PartResult::new(name, "E-FUN");
    let cases = stall_cases(!quick);
    let n = cases.len() as u64;
    let res = crate::fun::par_ranges(n, crate::props::threads(), 4, |a, b| {
        let mut viol = vec![];
        let mut blocked = 0u64;
        let mut maxb = 0usize;
        for i in a..b {
            let c = &cases[i as usize];
            let (fs, ab, bytes) = stall_case_findings(c);
            if ab {
                blocked += 1;
            }
            maxb = maxb.max(bytes);
            for f in fs {
                viol.push(Violation { scenario: name.to_string(), sig: f.sig, detail: f.detail, history: vec![], transcript: vec![serde_json::json!({"cap": c.cap, "line": c.line}).to_string()] });
            }
        }
        (viol, blocked, maxb)
    });
    let mut blocked = 0;
    let mut maxb = 0;
    for (v, b, m) in res {
        r.violations.extend(v);
        blocked += b;
        maxb = maxb.max(m);
    }
    r.violations.truncate(40);
    r.evaluations = 2 * n;
    r.states = n;
    r.transitions = 2 * n * 9;
    r.distinct = blocked;
    r.traces = 2 * n;
    r.exhaustive = true;
    if blocked == 0 {
        r.goals_missing.push("a case in which the stalled connection's own task ends up waiting for its socket".into());
    }
    if maxb < 8 * 1024 {
        r.goals_missing.push("a reply burst above 8 KiB to the stalled connection".into());
    }
    if let Some(c) = cases.get(cases.len() / 2) {
        r.samples.push(serde_json::json!({"cap": c.cap, "line": short(&c.line)}));
    }
    r.extra = serde_json::json!({"cases": n, "cases_in_which_the_stalled_task_waited_for_its_socket": blocked, "largest_reply_burst_bytes": maxb});
    r.wall_s = t0.elapsed().as_secs_f64();
    r
}

pub fn replay_fun(scenario: &str, input: &serde_json::Value) -> Vec<Finding> {
    if scenario == "fun:c05-stalled-reader" {
        let c = StallCase { cap: input["cap"].as_u64().unwrap_or(4096) as usize, line: input["line"].as_str().unwrap_or("").to_string() };
        return stall_case_findings(&c).0;
    }
    vec![]
}

pub fn plan(quick: bool) -> Plan {
    let mut parts = vec![];
    parts.push(Part::Custom("fun:c05-stalled-reader".into(), Box::new(move || stall_part(quick))));
    parts.push(Part::Bfs(Box::new(ghost(!quick)), lim(if quick { 6 } else { 7 }, 2_000_000, if quick { 20.0 } else { 600.0 })));
    for sess in SESSIONS {
        let depth = match sess {
            Sess::Unregistered => 2,
            Sess::MidCap => 3,
            _ => 1,
        };
        parts.push(Part::Bfs(Box::new(session_scn(sess, !quick, false)), lim(depth, 5_000_000, if quick { 30.0 } else { 900.0 })));
    }
    if !quick {
        for sess in [Sess::Founder, Sess::ServerOper, Sess::Plain, Sess::HalfOp] {
            parts.push(Part::Bfs(Box::new(session_scn(sess, true, true)), lim(2, 5_000_000, 900.0)));
        }
        // triples over the mini-core for the operator session
        parts.push(Part::Bfs(Box::new(session_scn(Sess::ServerOper, false, true)), lim(3, 5_000_000, 900.0)));
    } else {
        for sess in [Sess::Founder, Sess::ServerOper] {
            parts.push(Part::Bfs(Box::new(session_scn(sess, false, true)), lim(2, 5_000_000, 30.0)));
        }
    }
    Plan {
        property: "C05".into(),
        rule: "bounded-exhaustive line grammar (43 verbs x arity 0..max+1 x parameter-shape menus; raw byte payloads; EOF variants) sent through the real connection loop in 10 session states; thorough adds the full shape menus and all ordered pairs of a 77-line core alphabet in 4 states. A case is non-trivial/distinct when it reaches a distinct canonical server state. Oracle: no connection task aborts, no connection is closed unless the protocol ends it, sender and bystanders still get PING answered and bystanders still exchange a channel message".into(),
        assumptions: vec!["a panic inside a connection future is what tokio turns into an aborted task".into(), "back-pressure is explored for one stalled reader with socket buffers of 2.5 - 64 KiB (fun:c05-stalled-reader); everywhere else the harness reads every connection after every step".into()],
        parts,
    }
}
