//! E-SEQ scenarios for C01, C07, C08, C09, C10, C15, C16 (chat worlds judged by
//! the Spec under each property's projection) and product sweeps.

use super::common::*;
use super::{lim, threads};
use crate::bfs::{observe, judge, Act, Scenario, View, Violation};
use crate::check::{Cat, Finding, Focus, StepObs, ALL_CATS};
use crate::fun::par_ranges;
use crate::run::{Part, PartResult, Plan};
use crate::scn::{part, Cfg, CfgChan, ChatScn};
use crate::spec::SpecOper;
use crate::world::{Life, World};
use serde_json::{json, Value};
use std::collections::BTreeSet;
use std::time::Instant;

fn oper_cfg() -> Cfg {
    Cfg {
        label: "oper".into(),
        opers: vec![SpecOper { name: "op".into(), password: "oppw".into(), mask: None }],
        ..Default::default()
    }
}

/// Run a scripted world: prelude lines, then judge `line` from `slot` with `focus`.
pub struct Script {
    pub cfg: Cfg,
    pub users: Vec<(usize, String, String)>, // slot, nick, user
    pub prelude: Vec<(usize, String)>,
    pub slot: usize,
    pub line: String,
}

struct OneShot<'a> {
    sc: &'a Script,
    focus: Focus,
}

impl<'a> Scenario for OneShot<'a> {
    fn name(&self) -> String {
        "oneshot".into()
    }
    fn slots(&self) -> usize {
        self.sc.users.iter().map(|u| u.0 + 1).max().unwrap_or(1)
    }
    fn config(&self) -> crate::config::MainConfig {
        self.sc.cfg.main_config()
    }
    fn spec_cfg(&self) -> crate::spec::SpecCfg {
        self.sc.cfg.spec_cfg()
    }
    fn actions(&self, _v: &View) -> Vec<Act> {
        vec![]
    }
    fn focus(&self) -> Focus {
        self.focus.clone()
    }
    fn invariants(&self) -> Vec<&'static str> {
        // the representation invariants of the channel/user relation hold after every scripted line
        vec!["membership-symmetry", "dangling-member", "rank-set", "empty-channel"]
    }
}

/// Execute a script on a fresh world and judge its last line. Returns findings
/// and the lines the actor received (for coverage goals).
pub fn run_script(sc: &Script, focus: &Focus) -> (Vec<Finding>, Vec<String>) {
    let one = OneShot { sc, focus: focus.clone() };
    let mut w = World::new(sc.cfg.main_config(), one.slots());
    macro_rules! m {
        ($e:expr) => {
            match $e {
                Ok(v) => v,
                Err(e) => return (vec![finding("machinery", e.0)], vec![]),
            }
        };
    }
    for (s, n, u) in &sc.users {
        m!(w.register(*s, n, u));
    }
    for (s, l) in &sc.prelude {
        m!(w.send(*s, l));
    }
    w.take_all();
    let (pre, obs, post) = m!(observe(&mut w, &Act::Send(sc.slot, sc.line.clone()), 0));
    let mut goals = BTreeSet::new();
    let mut st = (0, 0);
    let mut f = judge(&one, &sc.cfg.spec_cfg(), focus, &pre, &obs, &post, &mut goals, &mut st);
    if st.0 == 0 {
        f.push(finding("machinery", format!("spec silent on scripted line {:?}", sc.line)));
    }
    for (i, c) in w.conns.iter().enumerate() {
        if let Life::Panicked(msg) = &c.life {
            f.push(finding("panic", format!("connection {} aborted: {}", i, msg)));
        }
    }
    (f, obs.lines[sc.slot].clone())
}

pub fn script_json(sc: &Script) -> Value {
    json!({
        "cfg": {"max_joins": sc.cfg.max_joins, "label": sc.cfg.label},
        "users": sc.users.iter().map(|(s,n,u)| json!([s,n,u])).collect::<Vec<_>>(),
        "prelude": sc.prelude.iter().map(|(s,l)| json!([s,l])).collect::<Vec<_>>(),
        "slot": sc.slot,
        "line": sc.line,
    })
}

pub fn script_from_json(v: &Value) -> Script {
    let mut cfg = oper_cfg();
    cfg.max_joins = v["cfg"]["max_joins"].as_u64().map(|x| x as usize);
    Script {
        cfg,
        users: v["users"].as_array().map(|a| a.iter().map(|x| (x[0].as_u64().unwrap_or(0) as usize, x[1].as_str().unwrap_or("").to_string(), x[2].as_str().unwrap_or("").to_string())).collect()).unwrap_or_default(),
        prelude: v["prelude"].as_array().map(|a| a.iter().map(|x| (x[0].as_u64().unwrap_or(0) as usize, x[1].as_str().unwrap_or("").to_string())).collect()).unwrap_or_default(),
        slot: v["slot"].as_u64().unwrap_or(0) as usize,
        line: v["line"].as_str().unwrap_or("").to_string(),
    }
}

/// Generic product sweep over scripts.
pub fn sweep(name: &'static str, scripts: Vec<Script>, focus: Focus, goal_codes: Vec<&'static str>) -> PartResult {
    let t0 = Instant::now();
    let mut r = PartResult::new(name, "E-FUN");
    let n = scripts.len() as u64;
    let res = par_ranges(n, threads(), 16, |a, b| {
        let mut viol = vec![];
        let mut seen: BTreeSet<String> = BTreeSet::new();
        let mut outcomes: BTreeSet<String> = BTreeSet::new();
        for i in a..b {
            let sc = &scripts[i as usize];
            let (fs, lines) = run_script(sc, &focus);
            let mut oc = vec![];
            for l in &lines {
                if let Some(m) = crate::canon::parse_server_line(l) {
                    seen.insert(m.cmd.clone());
                    oc.push(m.cmd);
                }
            }
            outcomes.insert(oc.join(","));
            for f in fs {
                viol.push(Violation { scenario: name.to_string(), sig: f.sig, detail: f.detail, history: vec![], transcript: vec![script_json(sc).to_string()] });
            }
        }
        (viol, seen, outcomes)
    });
    let mut seen = BTreeSet::new();
    let mut outcomes = BTreeSet::new();
    for (v, s, o) in res {
        r.violations.extend(v);
        seen.extend(s);
        outcomes.extend(o);
    }
    r.violations.truncate(60);
    r.evaluations = n;
    r.states = n;
    r.transitions = n;
    r.distinct = outcomes.len() as u64;
    r.traces = n;
    r.exhaustive = true;
    r.goals_missing = goal_codes.iter().filter(|c| !seen.contains(**c)).map(|c| format!("reply {} observed", c)).collect();
    if let Some(sc) = scripts.get(scripts.len() / 2) {
        r.samples.push(script_json(sc));
    }
    r.extra = json!({"worlds": n, "distinct_reply_shapes": outcomes.len(), "reply_codes_seen": seen});
    r.wall_s = t0.elapsed().as_secs_f64();
    r
}

pub fn replay_script(v: &Value, focus: &Focus) -> Vec<Finding> {
    run_script(&script_from_json(v), focus).0
}

// ---------------------------------------------------------------------------
// C01

pub fn c01_focus() -> Focus {
    Focus {
        cats: vec![],
        relays: true,
        relay_verbs: Some(vec!["PRIVMSG", "NOTICE"]),
        actor: true,
        actor_codes: Some(vec!["PRIVMSG", "NOTICE", "401", "403", "404", "301"]),
        closes: false,
    }
}

pub fn c01_scn(name: &str, full: bool) -> ChatScn {
    // #y is declared in the configuration: it outlives its members, and who is on it is
    // decided by the history all the same (a member that disconnected is not a member)
    // (its configured rank lists name users who may be connected without being members)
    let cfg = Cfg { label: "preconfigured-#y".into(), channels: vec![crate::scn::CfgChan { name: "#y".into(), operators: vec!["bob".into()], voices: vec!["carol".into(), "dave".into()], ..Default::default() }], ..Default::default() };
    let mut s = ChatScn::new(name, cfg, vec![part(0, "alice", "alicia", "au"), part(1, "bob", "bobby", "bu"), part(2, "carol", "caro", "cu"), part(3, "dave", "davy", "du")], 0);
    let churn: Vec<&'static str> = if full {
        vec!["JOIN #x", "JOIN #y", "JOIN #x,#y", "JOIN #y,#z", "PART #x", "KICK #x {peer}", "NICK {alt}", "NICK {peer}", "MODE #x +v {peer}", "MODE #x +h {peer}", "MODE #x +o {peer}", "MODE #x -o {peer}", "MODE #x +q {peer}", "MODE #x +n", "MODE #x -n", "MODE #x +s", "CAP END", "QUIT"]
    } else {
        vec!["JOIN #x", "JOIN #y", "PART #x", "KICK #x {peer}", "NICK {alt}", "NICK {peer}", "MODE #x +v {peer}", "MODE #x +o {peer}", "MODE #x +n", "QUIT"]
    };
    // the quick tier explores comma JOINs and registration commands of registered clients in
    // a scenario of their own (`c01-audience-lists`): the product with the rank/kick/rename
    // churn is the thorough tier's
    let churn: Vec<&'static str> = if name.ends_with("-lists") { vec!["JOIN #x", "JOIN #y", "JOIN #x,#y", "PART #x", "PART #y", "CAP END", "QUIT"] } else { churn };
    for slot in 0..3 {
        for t in &churn {
            s.alphabet_for.push((slot, t));
        }
    }
    s.ends = vec!["eof"];
    // the churn steps are judged only on the state that determines audiences
    // (the configured rank lists of #y are configuration: a JOIN consults them, nothing rewrites them)
    s.focus = Focus::state_only(&[Cat::Membership, Cat::Ranks, Cat::UserExistence, Cat::ChanExistence, Cat::UserIdentity, Cat::ChanFlags, Cat::ChanConfig]);
    s.invariants = vec!["rank-set", "membership-symmetry", "dangling-member"];
    let mut probes: Vec<&'static str> = vec![];
    for t in ["PRIVMSG #x :hi", "PRIVMSG #x :a b :c d", "PRIVMSG #x ::lead", "PRIVMSG #x :", "PRIVMSG #x :trail  ", "NOTICE {peer} : ", "NOTICE #x :hi", "PRIVMSG {peer} :hi", "PRIVMSG {peer} :a b :c d", "NOTICE {peer} :", "PRIVMSG {me} :hi", "PRIVMSG #x,{peer} :hi", "NOTICE #x,{peer} :hi", "PRIVMSG #x,#x :hi", "PRIVMSG {peer},{peer} :hi", "PRIVMSG #x,{peer},#x :hi", "NOTICE {peer},#x,nosuch,{peer} :hi", "PRIVMSG #x,nosuch,#nochan :hi", "NOTICE #x,nosuch,#nochan :hi", "PRIVMSG @#x :hi", "PRIVMSG +#x :hi", "NOTICE +#x :hi", "PRIVMSG %#x :hi", "PRIVMSG ~#x :hi", "PRIVMSG @+#x :hi", "NOTICE @+#x :hi", "PRIVMSG #y :hi", "PRIVMSG #y,#x :a b", "PRIVMSG @#y :hi", "NOTICE +#y :hi"] {
        probes.push(t);
    }
    s.probes = probes;
    s.probe_focus = Some(c01_focus());
    s.goals = vec![];
    s
}

/// C01 after a contended registration: the audience of a message must not
/// depend on connections that never registered (or were refused) having
/// claimed, and then dropped, a receiver's nickname.
pub fn c01_ghost(full: bool) -> ChatScn {
    let mut s = super::ghost::ghost_scn("c01-ghost", &[Cat::Membership, Cat::Ranks, Cat::UserExistence, Cat::ChanExistence, Cat::UserIdentity], full);
    s.probes_for = vec![(0, "PRIVMSG #x :hi"), (0, "PRIVMSG bob :a b :c"), (0, "NOTICE bob,#x :n"), (0, "PRIVMSG bobby :hi")];
    for slot in [1usize, 2] {
        s.probes_for.push((slot, "PRIVMSG #x :hi"));
        s.probes_for.push((slot, "PRIVMSG alice,{me} :hi"));
    }
    s.probe_focus = Some(c01_focus());
    s
}

/// "Exactly one copy ... with the text as sent", also for a text that fills the line: the
/// relayed line is longer than the received one (it carries the sender's prefix) and still
/// arrives whole. One case = (verb, target kind, length of the whole line sent).
pub fn c01_long_case(verb: &str, target: &str, line_len: usize) -> Vec<Finding> {
    let mut out = vec![];
    let mut w = World::new(Cfg::default().main_config(), 4);
    macro_rules! m {
        ($e:expr) => {
            match $e {
                Ok(v) => v,
                Err(e) => return vec![finding("machinery", e.0)],
            }
        };
    }
    m!(w.register(0, "alice", "au"));
    m!(w.register(1, "bob", "bu"));
    m!(w.register(2, "carol", "cu"));
    m!(w.register(3, "dave", "du"));
    for s in 0..3 {
        m!(w.send(s, "JOIN #x"));
    }
    m!(w.send(0, "MODE #x +v bob"));
    w.take_all();
    let head = format!("{} {} :", verb, target);
    if line_len <= head.len() + 8 {
        return out;
    }
    let mut text: String = "abcdefghijklmnopqrstuvwxy".chars().cycle().take(line_len - head.len() - 7).collect();
    text.push_str("THE-END");
    m!(w.send(0, &format!("{}{}", head, text)));
    let receivers: Vec<usize> = match target {
        "bob" => vec![1],
        "#x" => vec![1, 2],
        "+#x" => vec![1],
        _ => vec![],
    };
    // a server may also refuse a message it cannot relay whole: then the sender is told (an error
    // numeric; a refused NOTICE is silent) and nobody gets anything - what it must not do is
    // deliver something else than was sent
    let mine = w.take_lines(0);
    let refused = mine.iter().filter_map(|l| crate::canon::parse_server_line(l)).any(|m| m.cmd.len() == 3 && m.cmd.starts_with('4'));
    let mut copies: Vec<Vec<crate::canon::Msg>> = vec![vec![]];
    for slot in 1..4 {
        copies.push(w.take_lines(slot).iter().filter_map(|l| crate::canon::parse_server_line(l)).filter(|m| m.cmd == verb).collect());
    }
    let nobody = copies.iter().all(|c| c.is_empty());
    if nobody && (refused || verb == "NOTICE") && line_len > 1024 {
        return out;
    }
    for slot in 1..4 {
        let got: Vec<crate::canon::Msg> = std::mem::take(&mut copies[slot]);
        if receivers.contains(&slot) {
            if got.len() != 1 {
                out.push(finding("long:copies", format!("{} {} with a line of {} bytes: receiver slot {} got {} copies", verb, target, line_len, slot, got.len())));
            } else if got[0].params.last().map(|s| s.as_str()) != Some(text.as_str()) || got[0].prefix.as_deref() != Some("alice!~au@127.0.0.1") {
                out.push(finding("long:text", format!("{} {} with a line of {} bytes (text of {}): receiver slot {} got a text of {} bytes from {:?}", verb, target, line_len, text.len(), slot, got[0].params.last().map_or(0, |s| s.len()), got[0].prefix)));
            }
        } else if !got.is_empty() {
            out.push(finding("long:stray", format!("{} {}: slot {} is not addressed but got a copy", verb, target, slot)));
        }
    }
    if mine.iter().any(|l| l.contains(verb)) {
        out.push(finding("long:stray", format!("{} {}: the sender got its own message back", verb, target)));
    }
    for (i, c) in w.conns.iter().enumerate() {
        if let Life::Panicked(msg) = &c.life {
            out.push(finding("long:panic", format!("connection {} aborted: {}", i, msg)));
        }
    }
    out
}

fn c01_long_part(quick: bool) -> PartResult {
    let t0 = Instant::now();
    let name = "fun:c01-long-text";
    let mut r = PartResult::new(name, "E-FUN");
    let lens: Vec<usize> = if quick { (1966..=1998).step_by(2).collect() } else { (1900..=1998).collect() };
    for verb in ["PRIVMSG", "NOTICE"] {
        for target in ["bob", "#x", "+#x"] {
            for n in lens.iter().copied().chain([64usize, 512, 1024]) {
                r.evaluations += 1;
                for f in c01_long_case(verb, target, n) {
                    r.violations.push(Violation { scenario: name.into(), sig: f.sig, detail: f.detail, history: vec![], transcript: vec![json!({"verb": verb, "target": target, "line_len": n}).to_string()] });
                }
            }
        }
    }
    r.violations.truncate(40);
    r.states = r.evaluations;
    r.transitions = r.evaluations;
    r.distinct = r.evaluations;
    r.traces = r.evaluations;
    r.exhaustive = true;
    r.samples = vec![json!({"verb": "PRIVMSG", "target": "#x", "line_len": 1996, "expect": "bob and carol each get one copy with the whole text, prefixed alice!~au@127.0.0.1"})];
    r.wall_s = t0.elapsed().as_secs_f64();
    r
}

// ---------------------------------------------------------------------------
// C10

pub fn c10_scn(name: &str, full: bool) -> ChatScn {
    let mut s = ChatScn::new(name, Cfg::default(), vec![part(0, "alice", "alicia", "au"), part(1, "bob", "bobby", "bu"), part(2, "carol", "caro", "cu")], 0);
    s.prelude = vec![(0, "JOIN #c".into()), (2, "JOIN #c".into())];
    let mut a: Vec<&'static str> = vec!["MODE #c +n", "MODE #c -n", "MODE #c +s", "MODE #c -s", "MODE #c +m", "MODE #c -m", "MODE #c +b bob!*@*", "MODE #c -b bob!*@*", "MODE #c +e bob!*@*", "MODE #c -e bob!*@*", "MODE #c +e zed!*@*", "MODE #c +v bob", "MODE #c -v bob", "MODE #c -v bobby",
        // a mask whose literal run after the star overlaps itself in the sender's host (127.0.0.1)
        "MODE #c +b *!*@*.0.1",
        // a mask on the user part of the sender's source
        "MODE #c +b *!~bu@*"];
    if full {
        a.extend(["MODE #c -e zed!*@*", "MODE #c +b *!*@127.0.0.1", "MODE #c +h bob", "MODE #c +e *!~bu@*", "MODE #c -b *!*@*.0.1", "MODE #c +e *b!*@*"]);
    }
    for t in a {
        s.alphabet_for.push((0, t));
    }
    // the sender also tries to lift the restrictions itself (refused while plain member)
    for t in ["JOIN #c", "PART #c", "PART #nochan,#c", "NICK {alt}", "USER other 8 * :x", "MODE #c -b bob!*@*", "MODE #c +b nobody", "MODE #c -m", "MODE #c +v bob"] {
        s.alphabet_for.push((1, t));
    }
    // (whether an empty away text marks the user away is the server's choice; if it says
    // "marked as being away" and keeps the empty text, the empty text is what a sender is told)
    for t in ["AWAY :gone fishing", "AWAY :back at five", "AWAY", "AWAY :"] {
        s.alphabet_for.push((2, t));
    }
    // mode/membership/nick/away steps are judged only on the state that determines who may speak
    s.focus = Focus::state_only(&[Cat::Membership, Cat::Ranks, Cat::ChanFlags, Cat::ChanLists, Cat::Away, Cat::UserIdentity]);
    // who "has voice or a higher rank" is kept in two places by the server; they agree
    s.invariants = vec!["rank-set", "membership-symmetry"];
    for t in ["PRIVMSG #c :x y", "NOTICE #c :x y", "PRIVMSG carol :x", "NOTICE carol :x", "PRIVMSG nosuch :x", "NOTICE nosuch :x", "PRIVMSG #nochan :x", "NOTICE #nochan :x", "PRIVMSG #c,carol,nosuch :x", "NOTICE #c,carol,nosuch,#nochan :x", "PRIVMSG @#c :x", "NOTICE @#c :x",
        // a channel name may contain a dot, also behind a status prefix
        "NOTICE @#no.chan :x", "PRIVMSG @#no.chan :x", "NOTICE +#no.chan,nosuch :x"] {
        s.probes_for.push((1, t));
    }
    s.probe_focus = Some(Focus {
        cats: vec![],
        relays: true,
        relay_verbs: Some(vec!["PRIVMSG", "NOTICE"]),
        actor: true,
        actor_codes: None, // a NOTICE must produce no line at all on the sender's socket
        closes: false,
    });
    s
}

/// "Has voice or a higher rank" on a preconfigured +m channel whose rank lists name the
/// same nickname more than once: every configured rank is held from the JOIN on, so
/// taking the higher one away leaves the voice.
pub fn c10_pre_scn(name: &str, full: bool) -> ChatScn {
    let cfg = Cfg {
        label: "preconfigured-#m".into(),
        channels: vec![crate::scn::CfgChan {
            name: "#m".into(),
            flags: "mn".into(),
            operators: vec!["alice".into()],
            half_operators: vec!["bob".into()],
            voices: vec!["bob".into(), "carol".into(), "alice".into()],
            ..Default::default()
        }],
        ..Default::default()
    };
    let mut s = ChatScn::new(name, cfg, vec![part(0, "alice", "alicia", "au"), part(1, "bob", "bobby", "bu"), part(2, "carol", "caro", "cu")], 0);
    for slot in 0..3 {
        s.alphabet_for.push((slot, "JOIN #m"));
        s.alphabet_for.push((slot, "PART #m"));
    }
    let mut a = vec!["MODE #m -h bob", "MODE #m -v bob", "MODE #m -o alice", "MODE #m -v carol"];
    if full {
        a.extend(["MODE #m +h bob", "MODE #m +v bob", "MODE #m -m", "MODE #m -v alice"]);
    }
    for t in a {
        s.alphabet_for.push((0, t));
    }
    // voice is also given and taken by a half-operator (bob's configured rank)
    for t in ["MODE #m -v carol", "MODE #m +v carol", "MODE #m -v bob"] {
        s.alphabet_for.push((1, t));
    }
    s.focus = Focus::state_only(&[Cat::Membership, Cat::Ranks, Cat::ChanFlags, Cat::ChanConfig]);
    s.invariants = vec!["rank-set", "membership-symmetry"];
    for slot in 0..3 {
        for t in ["PRIVMSG #m :x y", "NOTICE #m :x y", "PRIVMSG +#m :x"] {
            s.probes_for.push((slot, t));
        }
    }
    s.probe_focus = Some(Focus { cats: vec![], relays: true, relay_verbs: Some(vec!["PRIVMSG", "NOTICE"]), actor: true, actor_codes: None, closes: false });
    s
}

// ---------------------------------------------------------------------------
// C07

pub fn c07_focus() -> Focus {
    Focus {
        // the state that decides admission is judged on every step (a MODE or INVITE that
        // is announced but not applied as announced changes who is admitted later)
        cats: vec![Cat::Membership, Cat::Invites, Cat::ChanExistence, Cat::Ranks, Cat::ChanLists, Cat::ChanFlags, Cat::KeyLimit],
        relays: true,
        relay_verbs: Some(vec!["JOIN"]),
        actor: true,
        actor_codes: Some(vec!["JOIN", "353", "366", "332", "471", "473", "474", "475", "405"]),
        closes: false,
    }
}

pub fn c07_scn(name: &str, full: bool) -> ChatScn {
    let mut cfg = Cfg::default();
    cfg.max_joins = Some(2);
    // carol is a second member from the start: a limit can be set below the occupancy
    let mut s = ChatScn::new(name, cfg, vec![part(0, "alice", "alicia", "au"), part(1, "bob", "bobby", "bu"), part(2, "carol", "caro", "cu")], 0);
    s.prelude = vec![(0, "JOIN #c".into()), (2, "JOIN #c".into())];
    let mut a: Vec<&'static str> = vec!["MODE #c +i", "MODE #c -i", "MODE #c +k k", "MODE #c +k j", "MODE #c -k", "MODE #c +b bob!*@*", "MODE #c -b bob!*@*", "MODE #c +e bob!*@*", "MODE #c -e bob!*@*", "MODE #c +e zed!*@*", "MODE #c +I bob!*@*", "MODE #c -I bob", "MODE #c +l 0", "MODE #c +l 1", "MODE #c +l 2", "MODE #c +l 3", "MODE #c -l", "INVITE bob #c", "INVITE bobby #c", "KICK #c bob",
        // a second invite-only channel: invitations are held per channel
        "JOIN #d", "MODE #d +i", "INVITE bob #d",
        // ... and an invitation can outlive the channel it was for (the inviter leaves, the channel
        // vanishes): the invited user's JOIN re-creates the channel and uses the invitation up
        "PART #d"];
    if full {
        a.extend(["MODE #c +b *!*@127.0.0.1", "MODE #c -I bob!*@*", "MODE #c +I zed", "MODE #c +b bobby"]);
    }
    for t in a {
        s.alphabet_for.push((0, t));
    }
    for t in ["JOIN #c", "JOIN #c k", "JOIN #c j", "JOIN #c wrong", "PART #c", "NICK {alt}", "MODE #c +b zed!*@*", "MODE #c -e bob!*@*", "MODE #c -i", "JOIN #q1", "JOIN #q2", "PART #q1", "JOIN #q1,#c", "JOIN #c,#q2 k,x", "JOIN #d"] {
        s.alphabet_for.push((1, t));
    }
    s.focus = c07_focus();
    // the quota counts the channels the user is really in: both sides of the membership relation agree
    s.invariants = vec!["membership-symmetry", "dangling-member"];
    s.spec_skip = Some(Box::new(|a| !matches!(a, Act::Send(_, l) if l.starts_with("JOIN") || l.starts_with("MODE") || l.starts_with("INVITE") || l.starts_with("KICK") || l.starts_with("PART") || l.starts_with("NICK"))));
    s.probes_for = vec![(0, "NAMES #c")];
    s.probe_focus = Some(Focus { cats: vec![], relays: false, relay_verbs: None, actor: true, actor_codes: Some(vec!["353", "366"]), closes: false });
    s
}

/// (a) the product of admission conditions.
pub fn c07_product(full: bool) -> Vec<Script> {
    let mut out = vec![];
    let keys: Vec<Option<&str>> = vec![None, Some("k")];
    let supplied: Vec<Option<&str>> = vec![None, Some("k"), Some("wrong")];
    // each menu entry is a list of MODE argument strings applied in order (several
    // masks of which only some match; a list that was filled and emptied again)
    let bans: Vec<Vec<&str>> = if full { vec![vec![], vec!["+b bob!*@*"], vec!["+b zed!*@*"], vec!["+b *!*@127.0.0.?"], vec!["+b zed!*@*", "+b bob!*@*"], vec!["+b bob!*@*", "-b bob!*@*"]] } else { vec![vec![], vec!["+b bob!*@*"], vec!["+b zed!*@*"], vec!["+b zed!*@*", "+b bob!*@*"], vec!["+b *!*@127.0.0.1?"]] };
    let excs: Vec<Vec<&str>> = if full { vec![vec![], vec!["+e *!~bu@*"], vec!["+e zed"], vec!["+e zed", "+e *!~bu@*"], vec!["+e zed", "-e zed"], vec!["+e *!~bu@*", "-e *!~bu@*"]] } else { vec![vec![], vec!["+e *!~bu@*"], vec!["+e zed", "+e *!~bu@*"], vec!["+e zed", "-e zed"]] };
    let invex: Vec<Vec<&str>> = if full { vec![vec![], vec!["+I bob"], vec!["+I zed"], vec!["+I zed", "+I bob"], vec!["+I bob", "-I bob"]] } else { vec![vec![], vec!["+I bob"], vec!["+I zed", "+I bob"]] };
    for key in &keys {
        for sup in &supplied {
            for ban in &bans {
                for exc in &excs {
                    for inv_only in [false, true] {
                        for invited in [false, true] {
                            for ie in &invex {
                                for limit in [None, Some(0usize), Some(1), Some(2)] {
                                    for quota in [None, Some(1usize), Some(2)] {
                                        for prejoined in [0usize, 1] {
                                            for member in [false, true] {
                                                if member && !full {
                                                    continue;
                                                }
                                                let mut cfg = oper_cfg();
                                                cfg.max_joins = quota;
                                                let mut prelude: Vec<(usize, String)> = vec![(0, "JOIN #c".into())];
                                                if member {
                                                    prelude.push((1, "JOIN #c".into()));
                                                }
                                                if prejoined == 1 {
                                                    prelude.push((1, "JOIN #q".into()));
                                                }
                                                if let Some(k) = key {
                                                    prelude.push((0, format!("MODE #c +k {}", k)));
                                                }
                                                for b in ban.iter() {
                                                    prelude.push((0, format!("MODE #c {}", b)));
                                                }
                                                for e in exc.iter() {
                                                    prelude.push((0, format!("MODE #c {}", e)));
                                                }
                                                if inv_only {
                                                    prelude.push((0, "MODE #c +i".into()));
                                                }
                                                for i in ie.iter() {
                                                    prelude.push((0, format!("MODE #c {}", i)));
                                                }
                                                if invited {
                                                    prelude.push((0, "INVITE bob #c".into()));
                                                }
                                                if let Some(l) = limit {
                                                    prelude.push((0, format!("MODE #c +l {}", l)));
                                                }
                                                let line = match sup {
                                                    None => "JOIN #c".to_string(),
                                                    Some(k) => format!("JOIN #c {}", k),
                                                };
                                                out.push(Script { cfg, users: vec![(0, "alice".into(), "au".into()), (1, "bob".into(), "bu".into()), (2, "carol".into(), "cu".into())], prelude, slot: 1, line });
                                            }
                                        }
                                    }
                                }
                            }
                        }
                    }
                }
            }
        }
    }
    // two-channel comma JOINs with per-channel keys
    for k1 in [None, Some("k")] {
        for k2 in [None, Some("j")] {
            for sup in ["", "k,j", "j,k", "k,x", "x,j"] {
                for quota in [None, Some(1usize), Some(2)] {
                    let mut cfg = oper_cfg();
                    cfg.max_joins = quota;
                    let mut prelude: Vec<(usize, String)> = vec![(0, "JOIN #c".into()), (0, "JOIN #d".into())];
                    if let Some(k) = k1 {
                        prelude.push((0, format!("MODE #c +k {}", k)));
                    }
                    if let Some(k) = k2 {
                        prelude.push((0, format!("MODE #d +k {}", k)));
                    }
                    let line = if sup.is_empty() { "JOIN #c,#d".to_string() } else { format!("JOIN #c,#d {}", sup) };
                    out.push(Script { cfg, users: vec![(0, "alice".into(), "au".into()), (1, "bob".into(), "bu".into())], prelude, slot: 1, line });
                }
            }
        }
    }
    out
}

// ---------------------------------------------------------------------------
// C08

pub fn c08_focus() -> Focus {
    Focus {
        cats: vec![Cat::Ranks, Cat::ChanFlags, Cat::ChanLists, Cat::KeyLimit, Cat::Membership, Cat::Topic, Cat::Invites, Cat::ChanExistence],
        relays: true,
        relay_verbs: None,
        actor: true,
        actor_codes: None,
        closes: false,
    }
}

pub fn c08_scn(name: &str, full: bool) -> ChatScn {
    let mut s = ChatScn::new(name, Cfg::default(), vec![part(0, "alice", "alicia", "au"), part(1, "bob", "bobby", "bu"), part(2, "carol", "caro", "cu"), part(3, "dave", "davy", "du")], 0);
    s.prelude = vec![(0, "JOIN #c".into()), (1, "JOIN #c".into()), (2, "JOIN #c".into())];
    let mut a: Vec<&'static str> = vec![
        "MODE #c +o {peer}", "MODE #c -o {peer}", "MODE #c +h {peer}", "MODE #c +v {peer}", "MODE #c -v {peer}", "MODE #c +a {peer}", "MODE #c -q {peer}", "MODE #c -o {me}", "MODE #c +i", "MODE #c +t", "MODE #c +m",
        "MODE #c +k x", "MODE #c -k", "MODE #c +b dave!*@*", "MODE #c +o-v {peer} {peer}", "MODE #c +l 0",
    ];
    if full {
        a.extend(["MODE #c -h {peer}", "MODE #c -a {peer}", "MODE #c +q {peer}", "MODE #c -i", "MODE #c -t", "MODE #c +n", "MODE #c +s", "MODE #c +l 2", "MODE #c -l", "MODE #c -b dave!*@*", "MODE #c +e dave", "MODE #c +I dave", "MODE #c +im", "MODE #c +tn-s", "MODE #c +m-i", "MODE #c -t+n", "MODE #c +s-k", "MODE #c -l+m", "MODE #c +k y", "MODE #c +l 7", "MODE #c -o+o {peer} {peer}", "MODE #c +ov {peer} {peer}", "MODE #c +b"]);
    }
    for slot in 0..3 {
        for t in &a {
            s.alphabet_for.push((slot, t));
        }
    }
    // enforcement: what the modes are supposed to govern
    for t in ["JOIN #c", "PRIVMSG #c :outside"] {
        s.alphabet_for.push((3, t));
    }
    for slot in 1..3 {
        for t in ["TOPIC #c :new", "KICK #c {peer}", "PRIVMSG #c :inside", "INVITE dave #c"] {
            s.alphabet_for.push((slot, t));
        }
    }
    s.alphabet_for.push((3, "MODE #c +i"));
    // "shown by later MODE/NAMES/WHO queries": also after the holder of a rank changed its nick
    for slot in 1..3 {
        s.alphabet_for.push((slot, "NICK {alt}"));
    }
    s.focus = c08_focus();
    s.invariants = vec!["rank-set"];
    for slot in 0..4 {
        s.probes_for.push((slot, "NAMES #c"));
    }
    s.probes_for.push((0, "MODE #c"));
    s.probe_focus = Some(Focus { cats: vec![], relays: false, relay_verbs: None, actor: true, actor_codes: Some(vec!["353", "366"]), closes: false });
    s.state_oracle = Some(Box::new(c08_mode_query));
    s
}

/// MODE #c (324) and the list queries show exactly the stored settings.
fn c08_mode_query(scn: &ChatScn, w: &mut World, v: &View, _goals: &mut BTreeSet<String>) -> Vec<Finding> {
    let mut out = vec![];
    let ch = match v.m.chans.get("#c") {
        Some(c) => c,
        None => return out,
    };
    // ask as some current member
    let asker = scn.parts.iter().map(|p| p.slot).find(|s| v.nick(*s).map_or(false, |n| ch.members.contains_key(n)));
    let asker = match asker {
        Some(a) => a,
        None => return out,
    };
    let r = match query(w, asker, "MODE #c") {
        Ok(r) => r,
        Err(e) => return vec![finding("machinery", e.0)],
    };
    if let Some(m) = r.iter().find(|m| m.cmd == "324") {
        let toks: Vec<&str> = m.params[2..].iter().flat_map(|s| s.split(' ')).collect();
        let flags = toks.first().copied().unwrap_or("");
        for (f, c) in [(ch.fi, 'i'), (ch.fm, 'm'), (ch.fs, 's'), (ch.ft, 't'), (ch.fnn, 'n'), (ch.key.is_some(), 'k'), (ch.limit.is_some(), 'l')] {
            if flags.contains(c) != f {
                out.push(finding("modeis", format!("324 shows flags {:?} but +{} is {}", flags, c, f)));
            }
        }
        // the parameters follow in the order of their letters, then "+<rank letter> nick" pairs
        let mut k = 1;
        for c in flags.chars() {
            let want = match c {
                'k' => ch.key.clone(),
                'l' => ch.limit.map(|x| x.to_string()),
                _ => None,
            };
            if let Some(wv) = want {
                if toks.get(k).copied() != Some(wv.as_str()) {
                    out.push(finding("modeis", format!("324 {:?}: the parameter of +{} should be {:?}", toks, c, wv)));
                }
                k += 1;
            }
        }
        let mut shown: BTreeSet<(char, String)> = BTreeSet::new();
        while k + 1 < toks.len() + 1 && k < toks.len() {
            let t = toks[k];
            if t.len() == 2 && t.starts_with('+') && k + 1 < toks.len() {
                shown.insert((t.chars().nth(1).unwrap(), toks[k + 1].to_string()));
                k += 2;
            } else {
                k += 1;
            }
        }
        let mut held: BTreeSet<(char, String)> = BTreeSet::new();
        for (n, mm) in &ch.members {
            for (f, c) in [(mm.q, 'q'), (mm.a, 'a'), (mm.o, 'o'), (mm.h, 'h'), (mm.v, 'v')] {
                if f {
                    held.insert((c, n.clone()));
                }
            }
        }
        // list masks may be shown in the same form; what is shown must be what is stored
        for (c, set) in [('b', &ch.ban), ('e', &ch.except), ('I', &ch.invex)] {
            let listed: BTreeSet<String> = shown.iter().filter(|(l, _)| *l == c).map(|(_, m)| m.clone()).collect();
            if !listed.is_empty() && &listed != set {
                out.push(finding("modeis", format!("324 {:?} shows +{} masks {:?} but stored {:?}", toks, c, listed, set)));
            }
        }
        shown.retain(|(l, _)| "qaohv".contains(*l));
        // (a server that does not list ranks in 324 at all shows them in NAMES/WHO, which the probes judge)
        if !shown.is_empty() && shown != held {
            out.push(finding("modeis", format!("324 {:?} shows ranks {:?} but members hold {:?}", toks, shown, held)));
        }
    } else {
        out.push(finding("modeis", "no 324 reply to a member's MODE #c".into()));
    }
    for (letter, code, set) in [('b', "367", &ch.ban), ('e', "348", &ch.except), ('I', "346", &ch.invex)] {
        let r = match query(w, asker, &format!("MODE #c +{}", letter)) {
            Ok(r) => r,
            Err(e) => return vec![finding("machinery", e.0)],
        };
        let got: BTreeSet<String> = r.iter().filter(|m| m.cmd == code).filter_map(|m| m.params.get(2).cloned()).collect();
        if &got != set {
            out.push(finding("listis", format!("+{} list shows {:?} but stored {:?}", letter, got, set)));
        }
    }
    out
}

/// (a) the privilege matrix: actor rank x letter x sign x target rank.
pub fn c08_matrix(full: bool) -> Vec<Script> {
    let mut out = vec![];
    // ranks are set up by founder alice; actor = bob (slot 1), target = carol (slot 2)
    let ranks: Vec<(&str, Vec<&str>)> = vec![
        ("outsider", vec![]),
        ("none", vec![]),
        ("v", vec!["+v"]),
        ("h", vec!["+h"]),
        ("o", vec!["+o"]),
        ("a", vec!["+a"]),
        ("q", vec!["+q"]),
        ("hv", vec!["+h", "+v"]),
        ("ov", vec!["+o", "+v"]),
        ("ao", vec!["+a", "+o"]),
    ];
    let target_ranks: Vec<(&str, Vec<&str>)> = vec![("none", vec![]), ("v", vec!["+v"]), ("h", vec!["+h"]), ("o", vec!["+o"]), ("a", vec!["+a"]), ("q", vec!["+q"])];
    let users = || vec![(0usize, "alice".to_string(), "au".to_string()), (1, "bob".to_string(), "bu".to_string()), (2, "carol".to_string(), "cu".to_string())];
    for (ar, aset) in &ranks {
        let base = |tset: &Vec<&str>| {
            let mut p: Vec<(usize, String)> = vec![(0, "JOIN #c".into()), (2, "JOIN #c".into())];
            if *ar != "outsider" {
                p.push((1, "JOIN #c".into()));
            }
            for m in aset {
                p.push((0, format!("MODE #c {} bob", m)));
            }
            for m in tset {
                p.push((0, format!("MODE #c {} carol", m)));
            }
            p
        };
        for (_tr, tset) in &target_ranks {
            for letter in ["q", "a", "o", "h", "v"] {
                for sign in ["+", "-"] {
                    out.push(Script { cfg: oper_cfg(), users: users(), prelude: base(tset), slot: 1, line: format!("MODE #c {}{} carol", sign, letter) });
                }
            }
            // letters needing different ranks, each with its own parameter: a refused letter
            // still consumes its parameter
            for l in ["MODE #c +ov carol alice", "MODE #c +qv carol alice", "MODE #c +av-v alice carol carol", "MODE #c +hl carol 9", "MODE #c +ob carol m2"] {
                out.push(Script { cfg: oper_cfg(), users: users(), prelude: base(tset), slot: 1, line: l.to_string() });
            }
            if !full {
                continue;
            }
            // composite strings against every target rank
            for l in ["MODE #c +o-v carol carol", "MODE #c +ov carol carol", "MODE #c -o+o carol carol", "MODE #c +vh carol carol", "MODE #c -qao carol carol carol"] {
                out.push(Script { cfg: oper_cfg(), users: users(), prelude: base(tset), slot: 1, line: l.to_string() });
            }
        }
        let none: Vec<&str> = vec![];
        for l in [
            "MODE #c +i", "MODE #c -i", "MODE #c +m", "MODE #c -m", "MODE #c +t", "MODE #c -t", "MODE #c +n", "MODE #c -n", "MODE #c +s", "MODE #c -s", "MODE #c +k x", "MODE #c -k", "MODE #c +l 2", "MODE #c -l", "MODE #c +b m", "MODE #c -b m",
            "MODE #c +e m", "MODE #c -e m", "MODE #c +I m", "MODE #c -I m", "MODE #c +im", "MODE #c +tn-s", "MODE #c +m-i", "MODE #c -t+n", "MODE #c +s-k", "MODE #c -l+m", "MODE #c +k y", "MODE #c +l 7", "MODE #c +l 0", "MODE #c +l 00", "MODE #c +b", "MODE #c +kl x 3", "MODE #c +o ghost", "MODE #c -v bob", "MODE #c -o bob", "MODE #c -q bob", "MODE #c +b m!u", "MODE #c +e n@h",
        ] {
            let mut p = base(&none);
            // give the "minus" forms something to remove
            p.push((0, "MODE #c +itk x".into()));
            p.push((0, "MODE #c +b m".into()));
            p.push((0, "MODE #c +e m".into()));
            p.push((0, "MODE #c +I m".into()));
            p.push((0, "MODE #c +l 5".into()));
            out.push(Script { cfg: oper_cfg(), users: users(), prelude: p, slot: 1, line: l.to_string() });
            out.push(Script { cfg: oper_cfg(), users: users(), prelude: base(&none), slot: 1, line: l.to_string() });
        }
    }
    out
}

/// "Each accepted change is ... enforced by JOIN, PRIVMSG ... from then on": histories of list
/// changes (masks added, removed again, several masks of which one matches, a list that was
/// filled and emptied) followed by the JOIN of an outsider or the PRIVMSG of a member the
/// lists are about.
pub fn c08_lists_enforce(full: bool) -> Vec<Script> {
    let mut out = vec![];
    let users = || vec![(0usize, "alice".to_string(), "au".to_string()), (1, "bob".to_string(), "bu".to_string()), (2, "dave".to_string(), "du".to_string())];
    let mut histories: Vec<Vec<&str>> = vec![
        vec!["+b dave!*@*"],
        vec!["+e zed!*@*", "-e zed!*@*", "+b dave!*@*"],
        vec!["+b dave!*@*", "+e dave!*@*"],
        vec!["+b dave!*@*", "+e zed!*@*", "+e dave!*@*"],
        vec!["+b dave!*@*", "+e dave!*@*", "+e *!*@10.*"],
        vec!["+b dave!*@*", "+e dave!*@*", "-e dave!*@*"],
        vec!["+b zed!*@*", "-b zed!*@*"],
        vec!["+i", "+I dave!*@*"],
        vec!["+i", "+I zed!*@*", "-I zed!*@*"],
        vec!["+i", "+I zed!*@*", "+I dave!*@*"],
        vec!["+b bob!*@*"],
        vec!["+b bob!*@*", "+e bob!*@*", "+e *!*@10.*"],
        vec!["+e zed!*@*", "-e zed!*@*", "+b bob!*@*"],
        vec!["+b bob!*@*", "+v bob"],
        vec!["+m", "+v bob", "-v bob"],
        // each flag that closes the channel to outsiders does so alone
        vec!["+s"],
        vec!["+s", "-s"],
        vec!["+n"],
        vec!["+n", "-n"],
        vec!["+sn", "-n"],
        vec!["+sn", "-s"],
        vec!["+m"],
    ];
    if full {
        histories.extend(vec![
            vec!["+b dave!*@*", "-b dave!*@*", "+b dave!*@*"],
            vec!["+e dave!*@*", "+b dave!*@*", "-e dave!*@*", "+e dave!*@*"],
            vec!["+b *!*@*", "+e *!~du@*", "+e *!~bu@*"],
            vec!["+k x", "-k x", "+l 1", "-l"],
        ]);
    }
    for h in histories {
        let mut p: Vec<(usize, String)> = vec![(0, "JOIN #c".into()), (1, "JOIN #c".into())];
        for m in &h {
            p.push((0, format!("MODE #c {}", m)));
        }
        out.push(Script { cfg: oper_cfg(), users: users(), prelude: p.clone(), slot: 2, line: "JOIN #c".into() });
        out.push(Script { cfg: oper_cfg(), users: users(), prelude: p.clone(), slot: 1, line: "PRIVMSG #c :still allowed?".into() });
        out.push(Script { cfg: oper_cfg(), users: users(), prelude: p, slot: 2, line: "PRIVMSG #c :from outside".into() });
    }
    out
}

pub fn c08_enforce_focus() -> Focus {
    Focus { cats: vec![Cat::Membership, Cat::ChanLists, Cat::ChanFlags], relays: true, relay_verbs: Some(vec!["JOIN", "PRIVMSG"]), actor: true, actor_codes: Some(vec!["JOIN", "474", "473", "475", "471", "404", "353", "366"]), closes: false }
}

// ---------------------------------------------------------------------------
// C09

pub fn c09_focus() -> Focus {
    Focus {
        cats: vec![Cat::Membership, Cat::Ranks, Cat::Topic, Cat::Invites, Cat::ChanExistence],
        relays: true,
        relay_verbs: Some(vec!["KICK", "TOPIC", "INVITE", "JOIN"]),
        actor: true,
        actor_codes: None,
        closes: false,
    }
}

/// Rank matrix for what the ranks govern: every actor rank (and combination)
/// against every victim rank (and combination) for KICK, and every actor rank
/// for TOPIC with/without +t and INVITE with/without +i, each in a fresh world.
pub fn c09_matrix(full: bool) -> Vec<Script> {
    let mut out = vec![];
    let ranks: Vec<(&str, Vec<&str>)> = vec![
        ("outsider", vec![]),
        ("none", vec![]),
        ("v", vec!["+v"]),
        ("h", vec!["+h"]),
        ("o", vec!["+o"]),
        ("a", vec!["+a"]),
        ("q", vec!["+q"]),
        ("hv", vec!["+h", "+v"]),
        ("vh", vec!["+v", "+h"]),
        ("ov", vec!["+o", "+v"]),
        ("oh", vec!["+o", "+h"]),
        ("ao", vec!["+a", "+o"]),
        ("ah", vec!["+a", "+h"]),
    ];
    let target_ranks: Vec<(&str, Vec<&str>)> = vec![
        ("none", vec![]),
        ("v", vec!["+v"]),
        ("h", vec!["+h"]),
        ("o", vec!["+o"]),
        ("a", vec!["+a"]),
        ("q", vec!["+q"]),
        ("hv", vec!["+h", "+v"]),
        ("ov", vec!["+o", "+v"]),
        ("oh", vec!["+o", "+h"]),
        ("av", vec!["+a", "+v"]),
    ];
    let users = || vec![(0usize, "alice".to_string(), "au".to_string()), (1, "bob".to_string(), "bu".to_string()), (2, "carol".to_string(), "cu".to_string()), (3, "dave".to_string(), "du".to_string())];
    for (ar, aset) in &ranks {
        let base = |tset: &Vec<&str>, flags: &str| {
            let mut p: Vec<(usize, String)> = vec![(0, "JOIN #c".into()), (2, "JOIN #c".into())];
            if *ar != "outsider" {
                p.push((1, "JOIN #c".into()));
            }
            for m in aset {
                p.push((0, format!("MODE #c {} bob", m)));
            }
            for m in tset {
                p.push((0, format!("MODE #c {} carol", m)));
            }
            if !flags.is_empty() {
                p.push((0, format!("MODE #c {}", flags)));
            }
            p
        };
        for (_tr, tset) in &target_ranks {
            out.push(Script { cfg: Cfg::default(), users: users(), prelude: base(tset, ""), slot: 1, line: "KICK #c carol".into() });
            if full {
                out.push(Script { cfg: Cfg::default(), users: users(), prelude: base(tset, ""), slot: 1, line: "KICK #c carol,alice :both".into() });
            }
        }
        let none: Vec<&str> = vec![];
        for flags in ["", "+t", "+i", "+ti"] {
            for l in ["TOPIC #c :new topic", "TOPIC #c :", "INVITE dave #c", "INVITE carol #c", "KICK #c alice"] {
                // founder/protected without the operator flag inviting on +i: the statement's
                // "an operator" is ambiguous there and the Spec is silent (DESIGN 4.0)
                if l.starts_with("INVITE") && flags.contains('i') && ["a", "q", "ah"].contains(ar) {
                    continue;
                }
                out.push(Script { cfg: Cfg::default(), users: users(), prelude: base(&none, flags), slot: 1, line: l.to_string() });
            }
        }
    }
    // "grants one admission": the invitation survives a JOIN refused for another reason
    // (limit, key), is used up by the admission, and does not admit a second time
    let base: Vec<(usize, String)> = vec![(0, "JOIN #c".into()), (1, "JOIN #c".into()), (2, "JOIN #c".into())];
    for (setup, tail) in [
        (vec!["MODE #c +il 3", "INVITE dave #c"], vec![]),
        (vec!["MODE #c +ik k", "INVITE dave #c"], vec![]),
        (vec!["MODE #c +i", "INVITE dave #c"], vec![]),
        (vec!["MODE #c +i", "INVITE dave #c"], vec![(3usize, "JOIN #c"), (3usize, "PART #c")]),
        (vec!["MODE #c +il 3", "INVITE dave #c"], vec![(3usize, "JOIN #c"), (0usize, "MODE #c -l")]),
    ] {
        let mut p = base.clone();
        for l in setup {
            p.push((0, l.to_string()));
        }
        for (sl, l) in tail {
            p.push((sl, l.to_string()));
        }
        out.push(Script { cfg: Cfg::default(), users: users(), prelude: p, slot: 3, line: "JOIN #c".into() });
    }
    // "reaches exactly the invited user and grants one admission" to the channel it names:
    // channel names are exact strings (#Cc and #cc are two channels), an invitation to one
    // is filed under that name, admits there, and admits nowhere else
    let two: Vec<(usize, String)> = vec![(0, "JOIN #Cc".into()), (0, "MODE #Cc +i".into()), (2, "JOIN #cc".into()), (2, "MODE #cc +i".into())];
    out.push(Script { cfg: Cfg::default(), users: users(), prelude: two.clone(), slot: 0, line: "INVITE dave #Cc".into() });
    let mut invited = two.clone();
    invited.push((0, "INVITE dave #Cc".into()));
    for l in ["JOIN #Cc", "JOIN #cc", "JOIN #CC"] {
        out.push(Script { cfg: Cfg::default(), users: users(), prelude: invited.clone(), slot: 3, line: l.into() });
    }
    let mut used = invited.clone();
    used.push((3, "JOIN #Cc".into()));
    used.push((3, "PART #Cc".into()));
    for l in ["JOIN #Cc", "JOIN #cc"] {
        out.push(Script { cfg: Cfg::default(), users: users(), prelude: used.clone(), slot: 3, line: l.into() });
    }
    out
}

/// "The new topic is announced to all members and is what later TOPIC, LIST and JOIN replies
/// show", whatever its length: what the members were told is what is shown afterwards (a
/// server that enforces its TOPICLEN cuts both or neither).
pub fn c09_long_topic_case(len: usize) -> Vec<Finding> {
    let mut out = vec![];
    let mut w = World::new(Cfg::default().main_config(), 3);
    macro_rules! m {
        ($e:expr) => {
            match $e {
                Ok(v) => v,
                Err(e) => return vec![finding("machinery", e.0)],
            }
        };
    }
    m!(w.register(0, "alice", "au"));
    m!(w.register(1, "bob", "bu"));
    m!(w.register(2, "carol", "cu"));
    m!(w.send(0, "JOIN #c"));
    m!(w.send(1, "JOIN #c"));
    w.take_all();
    let mut text: String = "topic-abcdefghijklmnopqrstuvwxyz".chars().cycle().take(len.saturating_sub(3)).collect();
    text.push_str("END");
    m!(w.send(0, &format!("TOPIC #c :{}", text)));
    let told: Vec<String> = w.take_lines(1).iter().filter_map(|l| crate::canon::parse_server_line(l)).filter(|m| m.cmd == "TOPIC").filter_map(|m| m.params.last().cloned()).collect();
    let own_lines = w.take_lines(0);
    w.take_all();
    // a server may refuse a topic it will not keep whole: the setter is told, nobody else is, and
    // no topic is shown afterwards
    if told.is_empty() && len > 256 {
        let own: Vec<crate::canon::Msg> = own_lines.iter().filter_map(|l| crate::canon::parse_server_line(l)).collect();
        let refused = own.iter().any(|m| (m.cmd.len() == 3 && m.cmd.starts_with('4')) || m.cmd.starts_with("ERROR"));
        let still_none = m!(query(&mut w, 1, "TOPIC #c")).iter().any(|m| m.cmd == "331");
        if refused && still_none {
            return out;
        }
    }
    if told.len() != 1 || told[0].is_empty() || !text.starts_with(told[0].as_str()) {
        out.push(finding("topic:announce", format!("TOPIC with a text of {} bytes: the other member was told {:?} texts (lengths {:?})", len, told.len(), told.iter().map(|t| t.len()).collect::<Vec<_>>())));
        return out;
    }
    let told = told[0].clone();
    let shown = |r: Vec<crate::canon::Msg>, code: &str| -> Option<String> { r.iter().find(|m| m.cmd == code).and_then(|m| m.params.last().cloned()) };
    let q = shown(m!(query(&mut w, 1, "TOPIC #c")), "332");
    let l = shown(m!(query(&mut w, 1, "LIST #c")), "322");
    let j = shown(m!(query(&mut w, 2, "JOIN #c")), "332");
    for (what, got) in [("TOPIC #c (332)", q), ("LIST #c (322)", l), ("a newcomer's JOIN (332)", j)] {
        if got.as_deref() != Some(told.as_str()) {
            out.push(finding("topic:shown", format!("topic of {} bytes: members were told a text of {} bytes, {} shows {} bytes", len, told.len(), what, got.map_or(0, |g| g.len()))));
        }
    }
    for (i, c) in w.conns.iter().enumerate() {
        if let Life::Panicked(msg) = &c.life {
            out.push(finding("topic:panic", format!("connection {} aborted: {}", i, msg)));
        }
    }
    out
}

fn c09_long_topic_part(quick: bool) -> PartResult {
    let t0 = Instant::now();
    let name = "fun:c09-long-topic";
    let mut r = PartResult::new(name, "E-FUN");
    let mut lens: Vec<usize> = vec![1, 80, 255, 256, 390, 391, 512, 999, 1000, 1001, 1215, 1900, 1980];
    if !quick {
        lens.extend(300..=420);
        lens.extend(990..=1010);
    }
    for n in lens {
        r.evaluations += 1;
        for f in c09_long_topic_case(n) {
            r.violations.push(Violation { scenario: name.into(), sig: f.sig, detail: f.detail, history: vec![], transcript: vec![json!({"len": n}).to_string()] });
        }
    }
    r.violations.truncate(40);
    r.states = r.evaluations;
    r.transitions = r.evaluations * 4;
    r.distinct = r.evaluations;
    r.traces = r.evaluations;
    r.exhaustive = true;
    r.samples = vec![json!({"len": 1215, "expect": "TOPIC, LIST and a newcomer's JOIN show the text the members were told"})];
    r.wall_s = t0.elapsed().as_secs_f64();
    r
}

pub fn c09_scn(name: &str, full: bool) -> ChatScn {
    let mut s = ChatScn::new(name, Cfg::default(), vec![part(0, "alice", "alicia", "au"), part(1, "bob", "bobby", "bu"), part(2, "carol", "caro", "cu"), part(3, "dave", "davy", "du")], 0);
    s.prelude = vec![(0, "JOIN #c".into()), (1, "JOIN #c".into()), (2, "JOIN #c".into())];
    let mut founder: Vec<&'static str> = vec!["MODE #c +o {peer}", "MODE #c +h {peer}", "MODE #c +t", "MODE #c +i", "MODE #c -i", "MODE #c +l 3"];
    if full {
        founder.extend(["MODE #c +a {peer}", "MODE #c +v {peer}", "MODE #c -t", "MODE #c -o {me}", "MODE #c +h {me}", "MODE #c -l"]);
    }
    for t in founder {
        s.alphabet_for.push((0, t));
    }
    let mut all: Vec<&'static str> = vec!["KICK #c {peer}", "KICK #c {peer} :r s", "KICK #c {me}", "KICK #c ghost", "KICK #c {peer},ghost", "KICK #c {peer},{me}", "KICK #c bob,carol,bob", "PART #c", "TOPIC #c :t", "TOPIC #c :", "TOPIC #c ::-)", "INVITE {peer} #c", "INVITE ghost #c"];
    if full {
        all.extend(["TOPIC #c :a :b", "KICK #c alice,bob", "KICK #c carol,bob :out", "INVITE {me} #c"]);
    }
    for slot in 0..3 {
        for t in &all {
            s.alphabet_for.push((slot, t));
        }
    }
    for t in ["JOIN #c", "KICK #c {peer}", "TOPIC #c :from outside", "INVITE {peer} #c"] {
        s.alphabet_for.push((3, t));
    }
    s.focus = c09_focus();
    s.spec_skip = Some(Box::new(|a| matches!(a, Act::Send(_, l) if l.starts_with("MODE") || l.starts_with("PART"))));
    for slot in 0..4 {
        s.probes_for.push((slot, "TOPIC #c"));
        s.probes_for.push((slot, "LIST #c"));
        s.probes_for.push((slot, "LIST #nochan,#c"));
        s.probes_for.push((slot, "LIST"));
    }
    s.probe_focus = Some(Focus { cats: vec![], relays: false, relay_verbs: None, actor: true, actor_codes: Some(vec!["331", "332", "322", "403"]), closes: false });
    s
}

// ---------------------------------------------------------------------------
// C15

pub fn c15_scn(name: &str, full: bool) -> ChatScn {
    let mut s = ChatScn::new(name, oper_cfg(), vec![part(0, "uma", "ursula", "uu"), part(1, "alice", "alicia", "au"), part(2, "carol", "caro", "cu")], 1);
    // alice founds #y; uma will be a plain member there
    s.prelude = vec![(1, "JOIN #y".into())];
    let mut u: Vec<&'static str> = vec!["JOIN #x", "JOIN #y", "MODE {me} +w", "MODE {me} +i", "AWAY :t", "OPER op oppw", "NICK {alt}", "NICK {peer}", "NICK #bad", "NICK a.b", "NICK .ab",
        // a registered client may query or request capabilities at any time; it stays registered
        "CAP LS 302"];
    if full {
        u.extend(["CAP REQ :multi-prefix", "NICK a,b", "NICK ,ab", "NICK ::ab", "NICK &ab", "NICK {me}", "NICK fresh", "PART #x", "JOIN #z"]);
    }
    for t in u {
        s.alphabet_for.push((0, t));
    }
    let mut a: Vec<&'static str> = vec!["MODE #y +v {peer}", "MODE #y +h {peer}", "INVITE {peer} #z", "JOIN #z"];
    if full {
        a.extend(["MODE #y +o {peer}", "MODE #z +i", "WALLOPS :w"]);
    }
    for t in a {
        s.alphabet_for.push((1, t));
    }
    // a third client takes nicknames that were released
    for t in ["NICK uma", "NICK ursula"] {
        s.alphabet_for.push((2, t));
    }
    // an unregistered connection claims a nickname (slot 3)
    s.extra_actions = Some(Box::new(|_scn, v| {
        let mut acts = vec![];
        if v.life[3] == Life::Unconnected {
            acts.push(Act::Connect(3));
        } else if v.life[3] == Life::Live && v.infos[3].as_ref().map_or(false, |i| i.nick.is_none()) {
            acts.push(Act::Send(3, "NICK ursula".into()));
        } else if v.life[3] == Life::Live {
            // the claimant goes away again (whoever holds the nickname by then keeps it)
            acts.push(Act::Eof(3));
        }
        // a nickname that differs from the current one only in letter case is another
        // nickname (the server keys users by the exact spelling): free, hence accepted
        if let Some(n) = v.nick(0) {
            if v.m.users.contains_key(n) {
                let mut cs: Vec<char> = n.chars().collect();
                if let Some(c) = cs.first_mut() {
                    *c = if c.is_ascii_uppercase() { c.to_ascii_lowercase() } else { c.to_ascii_uppercase() };
                }
                let variant: String = cs.into_iter().collect();
                if variant != n {
                    acts.push(Act::Send(0, format!("NICK {}", variant)));
                }
                // a nickname beyond the advertised NICKLEN: accepted whole or refused, never cut
                if n.len() <= 200 {
                    acts.push(Act::Send(0, format!("NICK {}", "L".repeat(201))));
                }
            }
        }
        acts
    }));
    s.focus = Focus { cats: ALL_CATS.to_vec(), relays: true, relay_verbs: Some(vec!["NICK"]), actor: true, actor_codes: Some(vec!["NICK", "433", "432", "ERROR"]), closes: false };
    s.spec_skip = Some(Box::new(|a| !matches!(a, Act::Send(_, l) if l.starts_with("NICK")) && !matches!(a, Act::Eof(3))));
    // "and nothing else": the server's counters of invisible users and operators are not touched by a rename
    s.invariants = vec!["membership-symmetry", "dangling-member", "rank-set", "dangling-wallops", "wallops-set", "invisible-count", "operators-count", "max-users"];
    s.state_oracle = Some(Box::new(|scn, w, v, g| {
        // the identity is filed under one name: the connection's own idea of its nickname and
        // the user table agree (ownership oracle of C02)
        let mut out = super::reg::ownership_bijection(v);
        out.extend(c15_probes(scn, w, v, g));
        out
    }));
    s
}

/// Probes under the current nick: NAMES prefix, MODE, WHOIS, WHOWAS of old nicks.
fn c15_probes(_scn: &ChatScn, w: &mut World, v: &View, goals: &mut BTreeSet<String>) -> Vec<Finding> {
    let mut out = vec![];
    let me = match v.nick(0) {
        Some(n) => n.to_string(),
        None => return out,
    };
    let u = match v.m.users.get(&me) {
        Some(u) => u.clone(),
        None => return out,
    };
    // own modes
    match query(w, 0, &format!("MODE {}", me)) {
        Ok(r) => {
            let want: String = std::iter::once('+').chain([(u.i, 'i'), (u.o, 'o'), (u.lo, 'O'), (u.r, 'r'), (u.w, 'w')].iter().filter(|x| x.0).map(|x| x.1)).collect();
            if !r.iter().any(|m| m.cmd == "221" && m.params.get(1) == Some(&want)) {
                out.push(finding("probe:umode", format!("MODE {} does not report {:?}: {:?}", me, want, r.iter().map(crate::spec::render).collect::<Vec<_>>())));
            }
        }
        Err(e) => return vec![finding("machinery", e.0)],
    }
    // WHOIS by a peer shows the channels under the new nick
    if v.registered(1) {
        match whois_view(w, 1, &me) {
            Ok(Some(chs)) => {
                let want: BTreeSet<String> = v.m.chans_of(&me).into_iter().filter(|c| !v.m.chans[c].fs).collect();
                let got: BTreeSet<String> = chs.keys().cloned().collect();
                if got != want && (!u.i || v.m.share_channel(&me, v.nick(1).unwrap())) {
                    out.push(finding("probe:whois", format!("WHOIS {} lists {:?}, member of {:?}", me, got, want)));
                }
            }
            Ok(None) => {
                if !u.i || v.m.share_channel(&me, v.nick(1).unwrap()) {
                    out.push(finding("probe:whois", format!("WHOIS {} gives no 311", me)));
                }
            }
            Err(e) => return vec![finding("machinery", e.0)],
        }
        // WHOWAS of every released nick
        for (old, entries) in &v.m.hist {
            match query(w, 1, &format!("WHOWAS {}", old)) {
                Ok(r) => {
                    let n = r.iter().filter(|m| m.cmd == "314").count();
                    goals.insert("whowas".into());
                    if n != entries.len() {
                        out.push(finding("probe:whowas", format!("WHOWAS {} shows {} entries, history has {}", old, n, entries.len())));
                    }
                }
                Err(e) => return vec![finding("machinery", e.0)],
            }
        }
    }
    // WALLOPS reaches the user under its current nick iff +w
    if v.registered(0) && u.o {
        w.take_all();
        if let Err(e) = w.send(0, "WALLOPS :probe") {
            return vec![finding("machinery", e.0)];
        }
        let mine = w.take_lines(0);
        let got = mine.iter().any(|l| l.contains("WALLOPS :probe") || l.contains("WALLOPS probe"));
        if got != u.w {
            out.push(finding("probe:wallops", format!("{} (+w={}) received own WALLOPS: {}", me, u.w, got)));
        }
        w.take_all();
    }
    out
}

// ---------------------------------------------------------------------------
// C16

pub fn c16_scn(name: &str, full: bool) -> ChatScn {
    let mut s = ChatScn::new(name, oper_cfg(), vec![part(0, "alice", "alicia", "au"), part(1, "bob", "bobby", "bu"), part(2, "carol", "caro", "cu")], 0);
    s.prelude = vec![(0, "OPER op oppw".into())];
    let mut a: Vec<&'static str> = vec!["JOIN #x", "JOIN #y", "CAP END", "PART #x", "PART #nochan,#x", "KICK #x {peer}", "KICK #x {me}", "KICK #x {peer},{me}", "MODE #x +o {peer}", "QUIT", "TOPIC #x :t", "TOPIC #y :u", "MODE #x +i", "MODE #x +k k", "MODE #x +b m"];
    if full {
        a.extend(["JOIN #x k", "MODE #x +l 1", "JOIN #x,#y", "PART #y"]);
    }
    for slot in 0..3 {
        for t in &a {
            s.alphabet_for.push((slot, t));
        }
    }
    s.alphabet_for.push((0, "KILL {peer} :x"));
    s.ends = vec!["eof"];
    s.focus = Focus {
        cats: vec![Cat::ChanExistence, Cat::Membership, Cat::Ranks, Cat::ChanFlags, Cat::ChanLists, Cat::KeyLimit, Cat::Topic, Cat::ChanConfig],
        relays: false,
        relay_verbs: None,
        actor: true,
        actor_codes: Some(vec!["353", "366", "403", "332"]),
        closes: false,
    };
    s.invariants = vec!["empty-channel", "rank-set", "ban-info"];
    for slot in 0..3 {
        s.probes_for.push((slot, "LUSERS"));
        s.probes_for.push((slot, "LIST"));
        s.probes_for.push((slot, "MODE #x"));
        s.probes_for.push((slot, "TOPIC #x"));
        s.probes_for.push((slot, "TOPIC #y"));
    }
    s.probe_focus = Some(Focus { cats: vec![], relays: false, relay_verbs: None, actor: true, actor_codes: Some(vec!["254", "322", "403", "331", "332", "324"]), closes: false });
    s.step_oracle = Some(Box::new(c16_fresh));
    s.goals = vec!["created", "destroyed", "recreated"];
    s
}

/// "Give the configured ranks to the listed nicknames whenever these join": the lists are
/// configuration - joins, parts and nick changes of the listed users do not rewrite them.
pub fn c16_ranks_scn(name: &str, full: bool) -> ChatScn {
    let mut cfg = oper_cfg();
    cfg.label = "oper+preconfigured-#p-with-rank-lists".into();
    cfg.channels = vec![crate::scn::CfgChan { name: "#p".into(), founders: vec!["alice".into()], operators: vec!["bob".into()], voices: vec!["bob".into(), "carol".into()], ..Default::default() }];
    let mut s = c16_scn(name, false);
    s.cfg = cfg;
    s.alphabet_for.clear();
    s.prelude.clear();
    for slot in 0..3 {
        for t in ["JOIN #p", "PART #p", "NICK {alt}"] {
            s.alphabet_for.push((slot, t));
        }
        // a rank taken away by MODE is taken from the member, not from the configuration
        for t in ["MODE #p -o bob", "MODE #p -v carol", "MODE #p -q alice"] {
            s.alphabet_for.push((slot, t));
        }
        if full {
            s.alphabet_for.push((slot, "QUIT"));
            s.alphabet_for.push((slot, "KICK #p {peer}"));
        }
    }
    s.ends = vec![];
    s.probes_for.clear();
    for slot in 0..3 {
        s.probes_for.push((slot, "NAMES #p"));
        s.probes_for.push((slot, "MODE #p"));
    }
    s.probe_focus = Some(Focus { cats: vec![], relays: false, relay_verbs: None, actor: true, actor_codes: Some(vec!["353", "324"]), closes: false });
    s.step_oracle = None;
    s.goals = vec![];
    s
}

/// "within the max_joins quota": with max_joins = 1 a JOIN beyond the quota creates
/// nothing, whether the channel exists or not.
pub fn c16_quota_scn(name: &str, quota: usize) -> ChatScn {
    let mut cfg = oper_cfg();
    cfg.max_joins = Some(quota);
    cfg.label = format!("oper+max_joins{}", quota);
    let mut s = c16_scn(name, false);
    s.cfg = cfg;
    s.alphabet_for.clear();
    // with room for two: list entries that join nothing (already a member, a repeated name) use
    // up no quota - the new channel behind them is within the quota and is born
    let lines: &[&'static str] = if quota == 1 { &["JOIN #x", "JOIN #y", "JOIN #x,#y", "PART #x", "PART #y", "QUIT"] } else { &["JOIN #x", "JOIN #x,#y", "JOIN #x,#x,#y", "JOIN #y,#z", "PART #x", "QUIT"] };
    for slot in 0..2 {
        for t in lines {
            s.alphabet_for.push((slot, *t));
        }
    }
    s.goals = vec!["created", "destroyed"];
    s
}

/// One JOIN naming the same new channel twice (and lists mixing new, existing and repeated
/// names): one channel is born, with the joiner as founder and operator.
pub fn c16_dup_scn(name: &str) -> ChatScn {
    let mut s = c16_scn(name, false);
    s.alphabet_for.clear();
    for slot in 0..2 {
        for t in ["JOIN #x,#x", "JOIN #x,#y,#x", "JOIN #x", "PART #x", "PART #x,#x", "QUIT"] {
            s.alphabet_for.push((slot, t));
        }
    }
    s.invariants = vec!["empty-channel", "rank-set", "ban-info", "membership-symmetry", "dangling-member"];
    s.goals = vec!["created", "destroyed"];
    s
}

/// A channel that comes into existence is indistinguishable from a first
/// creation: no topic, flags, key, limit, lists; the joiner founder+operator.
fn c16_fresh(_scn: &ChatScn, pre: &View, obs: &StepObs, post: &View, goals: &mut BTreeSet<String>) -> Vec<Finding> {
    let mut out = vec![];
    for (n, c) in &post.m.chans {
        if !pre.m.chans.contains_key(n) {
            goals.insert("created".into());
            if !pre.m.hist.is_empty() || pre.depth > 2 {
                goals.insert("recreated".into());
            }
            let fresh = c.topic.is_none() && c.ban.is_empty() && c.except.is_empty() && c.invex.is_empty() && c.limit.is_none() && c.key.is_none() && !(c.fi || c.fm || c.fs || c.ft || c.fnn);
            let one = c.members.len() == 1 && c.members.values().all(|m| m.q && m.o && !m.a && !m.h && !m.v);
            if !fresh || !one {
                out.push(finding("fresh", format!("channel {} created by {:?} is not a fresh channel: {:?}", n, obs.act.render(), c)));
            }
        }
    }
    for n in pre.m.chans.keys() {
        if !post.m.chans.contains_key(n) {
            goals.insert("destroyed".into());
        }
    }
    out
}

/// (b) configuration lattice of a predefined channel.
pub fn c16_lattice_case(bits: u32) -> Vec<Finding> {
    let mut out = vec![];
    let on = |k: u32| bits & (1 << k) != 0;
    let mut ch = CfgChan { name: "#p".into(), ..Default::default() };
    if on(0) { ch.topic = Some("configured topic".into()); }
    if on(1) { ch.key = Some("pk".into()); }
    if on(2) { ch.limit = Some(3); }
    if on(3) { ch.ban = vec!["evil!*@*".into()]; }
    if on(4) { ch.exception = vec!["evil!*@good".into()]; }
    if on(5) { ch.invite_exception = vec!["lis!*@*".into()]; }
    if on(6) { ch.founders = vec!["lis".into()]; }
    if on(7) { ch.protecteds = vec!["lis".into()]; }
    if on(8) { ch.operators = vec!["lis".into()]; }
    if on(9) { ch.half_operators = vec!["lis".into()]; }
    if on(10) { ch.voices = vec!["lis".into()]; }
    let mut flags = String::new();
    for (k, c) in [(11, 'i'), (12, 'm'), (13, 's'), (14, 't'), (15, 'n')] {
        if on(k) { flags.push(c); }
    }
    ch.flags = flags.clone();
    let mut cfg = oper_cfg();
    cfg.channels = vec![ch.clone()];
    let mut w = World::new(cfg.main_config(), 3);
    macro_rules! m {
        ($e:expr) => {
            match $e {
                Ok(v) => v,
                Err(e) => return vec![finding("machinery", e.0)],
            }
        };
    }
    let check_settings = |w: &World, when: &str, out: &mut Vec<Finding>| {
        let snap = w.snapshot();
        match snap.channels.iter().find(|c| c.name == "#p") {
            None => out.push(finding("lattice:missing", format!("predefined #p does not exist {}", when))),
            Some(c) => {
                let ok = c.topic.as_ref().map(|t| t.0.clone()) == ch.topic
                    && c.key == ch.key
                    && c.client_limit == ch.limit
                    && c.ban == ch.ban
                    && c.exception == ch.exception
                    && c.invite_exception == ch.invite_exception
                    && c.invite_only == flags.contains('i')
                    && c.moderated == flags.contains('m')
                    && c.secret == flags.contains('s')
                    && c.protected_topic == flags.contains('t')
                    && c.no_external_messages == flags.contains('n')
                    && c.preconfigured;
                if !ok {
                    out.push(finding("lattice:settings", format!("#p {} does not carry the configured settings (bits {:#x}): {:?}", when, bits, c)));
                }
            }
        }
    };
    check_settings(&w, "at start-up", &mut out);
    // nobody has joined yet: nobody holds a rank yet (the configured lists only say who *will*)
    for (name, msg) in crate::spec::rep_invariants(&w.snapshot()) {
        out.push(finding("lattice:invariant", format!("at start-up (bits {:#x}): {}: {}", bits, name, msg)));
    }
    m!(w.register(0, "lis", "lu"));
    m!(w.register(1, "other", "ou"));
    m!(w.register(2, "boss", "bu"));
    let join = |w: &mut World, slot: usize| -> Result<Vec<String>, crate::world::MachineryError> {
        w.take_all();
        let line = if ch.key.is_some() { "JOIN #p pk" } else { "JOIN #p" };
        w.send(slot, line)?;
        Ok(w.take_lines(slot))
    };
    let rank_of = |w: &World, nick: &str| -> Option<(bool, bool, bool, bool, bool)> {
        let snap = w.snapshot();
        snap.channels.iter().find(|c| c.name == "#p").and_then(|c| c.users.iter().find(|u| u.nick == nick).map(|u| (u.founder, u.protected, u.operator, u.half_oper, u.voice)))
    };
    let want = (on(6), on(7), on(8), on(9), on(10));
    // listed nick joins (if the channel is invite-only it needs the invite exception)
    let lis_admitted = !on(11) || on(5);
    let ls = m!(join(&mut w, 0));
    let joined = rank_of(&w, "lis");
    if lis_admitted {
        match joined {
            Some(r) if r == want => {}
            other => out.push(finding("lattice:ranks", format!("listed nick joined #p with ranks {:?}, configured (q,a,o,h,v)={:?} (bits {:#x}; reply {:?})", other, want, bits, ls))),
        }
    } else if joined.is_some() {
        out.push(finding("lattice:admission", format!("listed nick entered invite-only #p without invitation (bits {:#x})", bits)));
    }
    // the configured mask lists are what a member is shown by the list queries
    if lis_admitted && joined.is_some() {
        for (letter, code, masks) in [("b", " 367 ", &ch.ban), ("e", " 348 ", &ch.exception), ("I", " 346 ", &ch.invite_exception)] {
            w.take_all();
            m!(w.send(0, &format!("MODE #p +{}", letter)));
            let ls = w.take_lines(0);
            let shown: Vec<&String> = ls.iter().filter(|l| l.contains(code)).collect();
            for mk in masks.iter() {
                if !shown.iter().any(|l| l.split(' ').any(|t| t == mk)) {
                    out.push(finding("lattice:lists", format!("MODE #p +{} does not list the configured mask {:?} (bits {:#x}): {:?}", letter, mk, bits, ls)));
                }
            }
            if shown.len() != masks.len() {
                out.push(finding("lattice:lists", format!("MODE #p +{} lists {} entries, configured {} (bits {:#x}): {:?}", letter, shown.len(), masks.len(), bits, ls)));
            }
        }
    }
    // other nick joins: no ranks
    let other_admitted = !on(11);
    m!(join(&mut w, 1));
    match rank_of(&w, "other") {
        Some(r) if other_admitted && r == (false, false, false, false, false) => {}
        None if !other_admitted => {}
        x => out.push(finding("lattice:ranks", format!("unlisted nick in #p has {:?} (admitted expected: {}) bits {:#x}", x, other_admitted, bits))),
    }
    // both leave: channel persists with its settings, empty
    m!(w.send(0, "PART #p"));
    m!(w.send(1, "PART #p"));
    check_settings(&w, "after being emptied", &mut out);
    // the users who left hold nothing of #p any more (both sides of the relation)
    for (name, msg) in crate::spec::rep_invariants(&w.snapshot()) {
        out.push(finding("lattice:invariant", format!("after both left (bits {:#x}): {}: {}", bits, name, msg)));
    }
    // and the quota counts only channels they are really in: with max_joins = 1 a new channel is admitted
    let snap = w.snapshot();
    if snap.channels.iter().find(|c| c.name == "#p").map_or(true, |c| !c.users.is_empty()) {
        out.push(finding("lattice:empty", format!("#p not empty/persisting after both left (bits {:#x})", bits)));
    }
    // listed nick re-joins: ranks again
    m!(join(&mut w, 0));
    if lis_admitted {
        match rank_of(&w, "lis") {
            Some(r) if r == want => {}
            other => out.push(finding("lattice:ranks-rejoin", format!("listed nick re-joined #p with ranks {:?}, configured {:?} (bits {:#x})", other, want, bits))),
        }
    }
    // the users end their sessions: nothing of them is left, #p persists
    m!(w.send(1, "QUIT"));
    m!(w.send(0, "QUIT"));
    for (name, msg) in crate::spec::rep_invariants(&w.snapshot()) {
        out.push(finding("lattice:invariant", format!("after the sessions ended (bits {:#x}): {}: {}", bits, name, msg)));
    }
    let snap = w.snapshot();
    if snap.users.iter().any(|u| u.nick == "lis" || u.nick == "other") || snap.channels.iter().find(|c| c.name == "#p").map_or(true, |c| !c.users.is_empty()) {
        out.push(finding("lattice:teardown", format!("after lis and other quit: users {:?}, #p members {:?} (bits {:#x})", snap.users.iter().map(|u| u.nick.clone()).collect::<Vec<_>>(), snap.channels.iter().find(|c| c.name == "#p").map(|c| c.users.iter().map(|u| u.nick.clone()).collect::<Vec<_>>()), bits)));
    }
    for (i, c) in w.conns.iter().enumerate() {
        if let Life::Panicked(msg) = &c.life {
            out.push(finding("lattice:panic", format!("connection {} aborted (bits {:#x}): {}", i, bits, msg)));
        }
    }
    out
}

pub fn c16_lattice(quick: bool) -> PartResult {
    let t0 = Instant::now();
    let mut r = PartResult::new("fun:c16-lattice", "E-FUN");
    let all: Vec<u32> = if quick {
        (0u32..(1 << 16)).filter(|b| b.count_ones() <= 2 || b.count_ones() >= 14).collect()
    } else {
        (0u32..(1 << 16)).collect()
    };
    let n = all.len() as u64;
    let res = par_ranges(n, threads(), 32, |a, b| {
        let mut v = vec![];
        for i in a..b {
            for f in c16_lattice_case(all[i as usize]) {
                v.push(Violation { scenario: "fun:c16-lattice".into(), sig: f.sig, detail: f.detail, history: vec![], transcript: vec![json!({"bits": all[i as usize]}).to_string()] });
            }
        }
        v
    });
    for v in res {
        r.violations.extend(v);
    }
    r.violations.truncate(40);
    r.evaluations = n;
    r.states = n;
    r.transitions = n * 6;
    r.distinct = n;
    r.traces = n;
    r.exhaustive = true;
    r.samples = vec![json!({"bits": "0x0143", "meaning": "topic+key+founders+operators on #p; script: start-up probe, listed nick joins, other joins, both leave, probe empty, listed re-joins"})];
    r.extra = json!({"configurations": n, "of": 65536});
    r.wall_s = t0.elapsed().as_secs_f64();
    r
}

// ---------------------------------------------------------------------------
// plans

pub fn plan(property: &str, quick: bool) -> Plan {
    let t = |q: f64, th: f64| if quick { q } else { th };
    match property {
        "C01" => Plan {
            property: "C01".into(),
            rule: "E-SEQ BFS: 3 users + 1 never-joining observer, channels #x/#y, churn alphabet JOIN/PART/KICK/NICK/MODE +v+h+o-o/QUIT/EOF; in every reachable state a battery of PRIVMSG/NOTICE probes (channel, nick, own nick, comma lists with duplicates and missing names, status-prefixed and multi-status targets, 4 text shapes) from every user; oracle: Spec audience - exactly one copy per accepted distinct target at each entitled receiver, exact prefix/target/text, nothing anywhere else".into(),
            assumptions: vec!["a nick target equal to the sender may yield 0 or 1 copy (statement ambiguous)".into(), "deliveries to different receivers commute; queues are drained in slot order".into()],
            parts: vec![
                Part::Bfs(Box::new(c01_scn("c01-audience", !quick)), lim(if quick { 5 } else { 6 }, 2_000_000, t(40.0, 900.0))),
                Part::Bfs(Box::new(c01_scn("c01-audience-lists", false)), lim(if quick { 5 } else { 6 }, 2_000_000, t(40.0, 900.0))),
                Part::Bfs(Box::new(c01_ghost(!quick)), lim(if quick { 6 } else { 8 }, 2_000_000, t(20.0, 600.0))),
                Part::Custom("fun:c01-long-text".into(), Box::new(move || c01_long_part(quick))),
            ],
        },
        "C10" => Plan {
            property: "C10".into(),
            rule: "E-SEQ BFS: operator alice, sender bob, recipient carol on #c; alphabet MODE #c +-n/m/s, +-b/e masks of the sender, +-v sender, sender JOIN/PART/NICK, recipient AWAY; in every state PRIVMSG and NOTICE probes (channel, present/away/absent nick, absent channel, mixed lists, status target); oracle: deliver iff member-or-open AND not banned-unless-excepted AND (not +m or voice+); refusal => nobody receives, PRIVMSG gets 404; NOTICE produces no line at all on the sender's socket; 301 with the away text".into(),
            assumptions: vec![],
            parts: vec![
                Part::Bfs(Box::new(c10_scn("c10-speak", !quick)), lim(if quick { 8 } else { 9 }, 2_000_000, t(40.0, 900.0))),
                Part::Bfs(Box::new(c10_pre_scn("c10-preconfigured-ranks", !quick)), lim(if quick { 5 } else { 7 }, 2_000_000, t(20.0, 600.0))),
            ],
        },
        "C07" => Plan {
            property: "C07".into(),
            rule: "(a) product sweep of admission conditions (key x supplied key x ban x exception x +i x invitation x invite-exception x limit x max_joins x prejoined x member) each in a fresh real server world, plus two-channel comma JOINs with per-channel keys; (b) E-SEQ BFS with evolving lists (MODE +-i/k/b/e/I/l, INVITE, candidate JOIN/PART/NICK, quota channels). Oracle: the statement's iff on the Spec state with the reference glob; refusal => state identical, no JOIN line anywhere, every numeric names a failing condition; acceptance => member, invitation consumed, JOIN to every member, 353/366".into(),
            assumptions: vec!["error precedence is not demanded".into()],
            parts: vec![
                Part::Custom("fun:c07-product".into(), Box::new(move || sweep("fun:c07-product", c07_product(!quick), c07_focus(), vec!["471", "473", "474", "475", "405", "JOIN", "353"]))),
                Part::Bfs(Box::new(c07_scn("c07-evolving", !quick)), lim(if quick { 6 } else { 7 }, 3_000_000, t(45.0, 900.0))),
            ],
        },
        "C08" => Plan {
            property: "C08".into(),
            rule: "(a) privilege matrix: actor rank (outsider, none, v, h, o, a, q, h+v, o+v, a+o) x rank letter x sign x target rank, and flag/key/limit/list letters and composite mode strings per actor rank, each in a fresh world; (b) E-SEQ BFS: 3 members issue MODE lines, an outsider and plain members exercise what the modes govern (JOIN, PRIVMSG, TOPIC, KICK, INVITE). Oracle: Spec permission table; refused => 482/442 and the channel state equals the permitted subset applied; accepted => one MODE line to every member with effective <= announced <= permitted; MODE #c / list queries / NAMES agree with the state".into(),
            assumptions: vec!["the actor's rank is evaluated when the command is issued".into()],
            parts: vec![
                Part::Custom("fun:c08-matrix".into(), Box::new(move || sweep("fun:c08-matrix", c08_matrix(!quick), c08_focus(), vec!["482", "442", "441", "MODE"]))),
                Part::Bfs(Box::new(c08_scn("c08-reach", !quick)), lim(if quick { 4 } else { 4 }, 3_000_000, t(35.0, 900.0))),
                // "enforced by ... TOPIC, KICK and INVITE from then on": the granted ranks and flags govern these commands
                Part::Custom("fun:c08-enforce".into(), Box::new(move || sweep("fun:c08-enforce", c09_matrix(!quick), c09_focus(), vec!["KICK", "TOPIC", "341", "482"]))),
                Part::Custom("fun:c08-lists-enforce".into(), Box::new(move || sweep("fun:c08-lists-enforce", c08_lists_enforce(!quick), c08_enforce_focus(), vec!["JOIN", "474", "473", "404"]))),
            ],
        },
        "C09" => Plan {
            property: "C09".into(),
            rule: "E-SEQ BFS: founder + 2 members + outsider on #c; founder hands out ranks and +t/+i; everybody issues KICK (single, with comment, self, absent, lists), TOPIC (set, clear, colon text), INVITE (member, absent, unknown, self); outsider JOINs by invitation; probes TOPIC/LIST in every state. Oracle: Spec rank rules; refusal => state unchanged + the right numeric; KICK announced to remaining members and victim; TOPIC announced to all and shown by TOPIC/LIST/JOIN; INVITE reaches exactly the invitee and admits once".into(),
            assumptions: vec!["INVITE on +i by founder/protected lacking the operator flag may go either way".into(), "other victims of one multi-target KICK may or may not see each other's KICK line".into()],
            parts: vec![
                Part::Custom("fun:c09-matrix".into(), Box::new(move || sweep("fun:c09-matrix", c09_matrix(!quick), c09_focus(), vec!["KICK", "TOPIC", "482", "442", "341", "443"]))),
                Part::Bfs(Box::new(c09_scn("c09-rank", !quick)), lim(if quick { 5 } else { 5 }, 3_000_000, t(40.0, 900.0))),
                Part::Custom("fun:c09-long-topic".into(), Box::new(move || c09_long_topic_part(quick))),
            ],
        },
        "C15" => Plan {
            property: "C15".into(),
            rule: "E-SEQ BFS: user accumulates channels/ranks/modes/away/operator/invitations, then NICK to free, own, taken, unregistered-claimed, released, invalid names, repeatedly; a third client takes released nicks. Oracle: rename-differential on the whole abstract state (every nick-keyed container), NICK line to the user and everyone sharing a channel, refusal => 433/ERROR and identical state; probes under the new nick (MODE, WHOIS, WHOWAS of released nicks, WALLOPS)".into(),
            assumptions: vec!["extra recipients of the NICK announcement are tolerated".into()],
            parts: vec![Part::Bfs(Box::new(c15_scn("c15-rename", !quick)), lim(if quick { 6 } else { 7 }, 3_000_000, t(40.0, 900.0)))],
        },
        "C16" => Plan {
            property: "C16".into(),
            rule: "(a) E-SEQ BFS: 3 users (one server operator) create, configure, empty (PART, KICK, QUIT, EOF, KILL in any combination) and re-create #x; oracle: first JOIN => fresh channel with founder+operator; last member gone by any exit => channel absent (snapshot, LIST, LUSERS count, 403); re-JOIN indistinguishable from a first creation; (b) configuration lattice: every subset of 16 settings of a predefined #p (quick: subsets of size <=2 and >=14) x script start-up/listed joins/other joins/both leave/listed re-joins".into(),
            assumptions: vec![],
            parts: vec![
                Part::Bfs(Box::new(c16_scn("c16-lifecycle", !quick)), lim(if quick { 7 } else { 7 }, 3_000_000, t(55.0, 900.0))),
                Part::Bfs(Box::new(c16_quota_scn("c16-quota", 1)), lim(if quick { 5 } else { 7 }, 1_000_000, t(10.0, 300.0))),
                Part::Bfs(Box::new(c16_quota_scn("c16-quota-2", 2)), lim(if quick { 4 } else { 6 }, 1_000_000, t(10.0, 300.0))),
                Part::Bfs(Box::new(c16_dup_scn("c16-repeated-names")), lim(if quick { 4 } else { 6 }, 1_000_000, t(10.0, 300.0))),
                // a channel lives as long as a member does - whatever connections that never registered do
                Part::Bfs(Box::new(super::ghost::ghost_scn("c16-ghost", &[Cat::ChanExistence, Cat::Membership, Cat::Ranks, Cat::Topic, Cat::UserExistence], !quick)), lim(if quick { 6 } else { 7 }, 2_000_000, t(20.0, 600.0))),
                Part::Bfs(Box::new(c16_ranks_scn("c16-configured-ranks", !quick)), lim(if quick { 5 } else { 6 }, 2_000_000, t(20.0, 600.0))),
                Part::Custom("fun:c16-lattice".into(), Box::new(move || c16_lattice(quick))),
            ],
        },
        _ => unreachable!(),
    }
}

pub fn scenarios(property: &str) -> Vec<Box<dyn Scenario>> {
    let mut v: Vec<Box<dyn Scenario>> = vec![];
    for full in [false, true] {
        match property {
            "C01" => {
                v.push(Box::new(c01_scn("c01-audience", full)));
                v.push(Box::new(c01_scn("c01-audience-lists", false)));
                v.push(Box::new(c01_ghost(full)));
            }
            "C10" => {
                v.push(Box::new(c10_scn("c10-speak", full)));
                v.push(Box::new(c10_pre_scn("c10-preconfigured-ranks", full)));
            }
            "C07" => v.push(Box::new(c07_scn("c07-evolving", full))),
            "C08" => v.push(Box::new(c08_scn("c08-reach", full))),
            "C09" => v.push(Box::new(c09_scn("c09-rank", full))),
            "C15" => v.push(Box::new(c15_scn("c15-rename", full))),
            "C16" => {
                v.push(Box::new(c16_scn("c16-lifecycle", full)));
                v.push(Box::new(c16_quota_scn("c16-quota", 1)));
                v.push(Box::new(c16_quota_scn("c16-quota-2", 2)));
                v.push(Box::new(c16_dup_scn("c16-repeated-names")));
                v.push(Box::new(c16_ranks_scn("c16-configured-ranks", full)));
                v.push(Box::new(super::ghost::ghost_scn("c16-ghost", &[Cat::ChanExistence, Cat::Membership, Cat::Ranks, Cat::Topic, Cat::UserExistence], full)));
            }
            _ => {}
        }
    }
    v
}

pub fn replay_fun(property: &str, scenario: &str, input: &Value) -> Vec<Finding> {
    match (property, scenario) {
        ("C01", "fun:c01-long-text") => c01_long_case(input["verb"].as_str().unwrap_or("PRIVMSG"), input["target"].as_str().unwrap_or("bob"), input["line_len"].as_u64().unwrap_or(1990) as usize),
        ("C09", "fun:c09-long-topic") => c09_long_topic_case(input["len"].as_u64().unwrap_or(1215) as usize),
        ("C07", "fun:c07-product") => replay_script(input, &c07_focus()),
        ("C08", "fun:c08-matrix") => replay_script(input, &c08_focus()),
        ("C08", "fun:c08-lists-enforce") => replay_script(input, &c08_enforce_focus()),
        ("C08", "fun:c08-enforce") | ("C09", "fun:c09-matrix") => replay_script(input, &c09_focus()),
        ("C16", "fun:c16-lattice") => c16_lattice_case(input["bits"].as_u64().unwrap_or(0) as u32),
        _ => vec![],
    }
}
