//! C02 (one owner per nickname) and C03 (nothing before registration; right password).

use super::common::*;
use super::lim;
use crate::bfs::{Act, Scenario, View};
use crate::check::{Cat, Finding, Focus, StepObs, ALL_CATS};
use crate::run::{Part, Plan};
use crate::scn::{part, Cfg, ChatScn};
use crate::world::{Life, World};
use std::collections::{BTreeMap, BTreeSet};

/// users keys <-> live connections that registered them: a bijection.
pub fn ownership_bijection(v: &View) -> Vec<Finding> {
    let mut out = vec![];
    let mut owners: BTreeMap<String, Vec<usize>> = BTreeMap::new();
    for (i, inf) in v.infos.iter().enumerate() {
        if v.life[i] != Life::Live {
            continue;
        }
        if let Some(inf) = inf {
            if inf.authenticated {
                match &inf.nick {
                    Some(n) => owners.entry(n.clone()).or_default().push(i),
                    None => out.push(finding("bijection:auth-no-nick", format!("connection {} is authenticated without a nick", i))),
                }
                if inf.has_sender {
                    out.push(finding("bijection:auth-no-user", format!("connection {} is authenticated but never handed its queue to a user", i)));
                }
            }
        }
    }
    for (n, cs) in &owners {
        if cs.len() > 1 {
            out.push(finding("bijection:two-owners", format!("nickname {} is claimed as registered by connections {:?}", n, cs)));
        }
        if !v.m.users.contains_key(n) {
            out.push(finding("bijection:owner-without-user", format!("connection(s) {:?} registered as {} but no such user exists", cs, n)));
        }
    }
    for n in v.m.users.keys() {
        if !owners.contains_key(n) {
            out.push(finding("bijection:user-without-owner", format!("user {} exists but no live connection owns it (ghost user)", n)));
        }
    }
    out
}

fn c02_scn(name: &str, with_password: bool, full: bool) -> ChatScn {
    let mut cfg = Cfg::default();
    if with_password {
        cfg.password = Some("good".into());
        cfg.label = "server-password".into();
    }
    let mut s = ChatScn::new(name, cfg, vec![part(0, "wit", "witty", "wu")], 3);
    if with_password {
        // the witness registers with the password in a custom prelude
        s.parts.clear();
        s.slots = 4;
    }
    let contenders = if full { 3 } else { 2 };
    s.extra_actions = Some(Box::new(move |_scn, v| {
        let mut acts = vec![];
        for i in 1..=contenders {
            match &v.life[i] {
                Life::Unconnected => {
                    acts.push(Act::Connect(i));
                    break; // symmetric slots: connect them in order
                }
                Life::Live => {
                    if v.registered(i) {
                        let me = v.nick(i).unwrap().to_string();
                        for l in [format!("PRIVMSG wit :id{}", i), "JOIN #c".to_string(), "NICK z".to_string(), "NICK x".to_string(), format!("MODE {} +i", me), format!("MODE {} +w", me), "CAP END".to_string(), "QUIT".to_string()] {
                            acts.push(Act::Send(i, l));
                        }
                        if full {
                            acts.push(Act::Send(i, "AWAY :t".into()));
                            acts.push(Act::Send(i, "NICK y".into()));
                        }
                    } else {
                        for l in ["NICK x".to_string(), "NICK y".to_string(), "USER uu 0 * :r".to_string(), "QUIT".to_string()] {
                            acts.push(Act::Send(i, l));
                        }
                        if with_password {
                            acts.push(Act::Send(i, "PASS good".into()));
                            acts.push(Act::Send(i, "PASS bad".into()));
                        }
                        // an unregistered (or refused) connection tries to act - also one that has
                        // given NICK and USER and was refused half-way
                        acts.push(Act::Send(i, format!("PRIVMSG wit :ghost{}", i)));
                        if full {
                            acts.push(Act::Send(i, "CAP LS 302".into()));
                            acts.push(Act::Send(i, "CAP END".into()));
                            acts.push(Act::Send(i, "AWAY :ghost".into()));
                            acts.push(Act::Send(i, "NICK z".into()));
                        }
                    }
                    acts.push(Act::Eof(i));
                }
                _ => {}
            }
        }
        acts
    }));
    s.focus = Focus::all();
    s.state_oracle = Some(Box::new(|_s, _w, v, _g| ownership_bijection(v)));
    s.after_step = Some(Box::new(owner_survives));
    // what hangs on a nickname (the WALLOPS audience, memberships) follows accepted changes only
    s.invariants = vec!["wallops-set", "dangling-wallops", "membership-symmetry", "dangling-member"];
    s
}

struct WithPrelude {
    inner: ChatScn,
}

/// After any step: every user the Spec state holds is still reachable - a
/// PRIVMSG from the witness arrives at its owning connection, and a message
/// from it arrives at the witness with its own prefix (attribution).
fn owner_survives(_scn: &ChatScn, w: &mut World, _pre: &View, obs: &StepObs, post: &View, _goals: &mut BTreeSet<String>) -> Vec<Finding> {
    let mut out = vec![];
    if !post.registered(0) {
        return out;
    }
    for i in 1..post.life.len() {
        if !post.registered(i) {
            continue;
        }
        let nick = post.nick(i).unwrap().to_string();
        w.take_all();
        if let Err(e) = w.send(i, "PRIVMSG wit :whoami") {
            return vec![finding("stalled", e.0)];
        }
        let got = w.take_lines(0);
        let want_prefix = format!(":{}!", nick);
        if !got.iter().any(|l| l.starts_with(&want_prefix) && l.contains("whoami")) {
            out.push(finding("attribution", format!("after {:?}: connection {} (registered as {}) spoke, witness saw {:?}", obs.act.render(), i, nick, got)));
        }
        w.take_all();
        if let Err(e) = w.send(0, &format!("PRIVMSG {} :ping-owner", nick)) {
            return vec![finding("stalled", e.0)];
        }
        let mine = w.take_lines(i);
        if !mine.iter().any(|l| l.contains("ping-owner")) {
            out.push(finding("owner-unreachable", format!("after {:?}: a message to {} did not reach its owner connection {}: {:?}", obs.act.render(), nick, i, mine)));
        }
    }
    out
}

impl Scenario for WithPrelude {
    fn name(&self) -> String {
        self.inner.name()
    }
    fn slots(&self) -> usize {
        self.inner.slots
    }
    fn config(&self) -> crate::config::MainConfig {
        self.inner.config()
    }
    fn spec_cfg(&self) -> crate::spec::SpecCfg {
        self.inner.spec_cfg()
    }
    fn prelude(&self, w: &mut World) -> Result<(), crate::world::MachineryError> {
        w.connect(0)?;
        w.send(0, "PASS good")?;
        w.send(0, "NICK wit")?;
        w.send(0, "USER wu 0 * :Real wu")?;
        Ok(())
    }
    fn actions(&self, v: &View) -> Vec<Act> {
        self.inner.actions(v)
    }
    fn focus(&self) -> Focus {
        self.inner.focus()
    }
    fn state_oracle(&self, w: &mut World, v: &View, g: &mut BTreeSet<String>) -> Vec<Finding> {
        self.inner.state_oracle(w, v, g)
    }
    fn after_step(&self, w: &mut World, pre: &View, obs: &StepObs, post: &View, g: &mut BTreeSet<String>) -> Vec<Finding> {
        self.inner.after_step(w, pre, obs, post, g)
    }
}

// ---------------------------------------------------------------------------
// C03

pub fn c03_configs() -> Vec<Cfg> {
    let mut v = vec![];
    let mk = |label: &str, password: Option<&str>, users: Vec<(&str, &str, Option<&str>, Option<&str>)>| Cfg {
        label: label.into(),
        password: password.map(|s| s.to_string()),
        users: users.into_iter().map(|(a, b, c, d)| (a.to_string(), b.to_string(), c.map(|s| s.to_string()), d.map(|s| s.to_string()))).collect(),
        ..Default::default()
    };
    v.push(mk("no-password", None, vec![]));
    v.push(mk("server-password", Some("right"), vec![]));
    v.push(mk("user-password", None, vec![("cfguser", "n", Some("userpw"), None)]));
    v.push(mk("user-mask-match", None, vec![("cfguser", "n", Some("userpw"), Some("n!~cfguser@127.0.0.1"))]));
    v.push(mk("user-mask-mismatch", None, vec![("cfguser", "n", Some("userpw"), Some("n!~cfguser@10.*"))]));
    v.push(mk("user+server-password", Some("right"), vec![("cfguser", "n", Some("userpw"), None)]));
    v.push(mk("user-nopass-under-server-password", Some("right"), vec![("cfguser", "n", None, None)]));
    // a configured name is a name as written: upper-case letters are nothing special
    v.push(mk("user-password-mixed-case-name", None, vec![("CfgUser", "n", Some("userpw"), None)]));
    v
}

const GATED: [&str; 30] = [
    "PRIVMSG wit :x", "NOTICE wit :x", "JOIN #c", "PART #w", "TOPIC #w :t", "TOPIC #w", "NAMES #w", "NAMES", "LIST", "INVITE wit #w", "KICK #w wit", "MODE #w +i", "MODE wit +i", "MODE #w", "WHO wit", "WHO #w", "WHOIS wit",
    "WHOWAS wit", "LUSERS", "MOTD", "OPER op oppw", "KILL wit :x", "AWAY :t", "ISON wit", "USERHOST wit", "WALLOPS :x", "PING x", "PONG x", "DIE", "STATS u",
];

fn c03_scn(cfg: Cfg, full: bool) -> C03 {
    let name = format!("c03-{}", cfg.label);
    let mut s = ChatScn::new(&name, cfg.clone(), vec![], 2);
    s.slots = 2;
    s.focus = Focus::all();
    let uname = cfg.users.first().map(|u| u.0.clone()).unwrap_or_else(|| "cfguser".to_string());
    s.extra_actions = Some(Box::new(move |_scn, v| {
        let mut acts = vec![];
        // the witness may take the nickname the fresh connection is about to use
        // (between its NICK and the completion of its registration)
        if v.nick(0) == Some("wit") && v.life[1] == Life::Live && !v.registered(1) {
            acts.push(Act::Send(0, "NICK n".into()));
        }
        match &v.life[1] {
            Life::Unconnected => {
                if v.depth == 0 {
                    acts.push(Act::Connect(1));
                }
            }
            Life::Live => {
                if !v.registered(1) {
                    for l in ["PASS right", "PASS wrong", "PASS userpw", "PASS :right ", "PASS : userpw", "NICK n", "USER other 0 * :r", "CAP LS 302", "CAP REQ :sasl", "CAP LIST", "CAP END", "QUIT"] {
                        acts.push(Act::Send(1, l.to_string()));
                    }
                    acts.push(Act::Send(1, format!("USER {} 0 * :r", uname)));
                    if full {
                        for l in ["CAP REQ :multi-prefix", "CAP REQ :multi-prefix sasl", "CAP REQ", "AUTHENTICATE PLAIN", "NICK wit"] {
                            acts.push(Act::Send(1, l.to_string()));
                        }
                    }
                }
            }
            _ => {}
        }
        acts
    }));
    s.extra_probes = Some(Box::new(|_scn, v| {
        let mut acts = vec![];
        if v.life[1] == Life::Live && !v.registered(1) {
            for l in GATED {
                acts.push(Act::Send(1, l.to_string()));
            }
        }
        acts
    }));
    s.goals = vec![];
    C03 { inner: s, cfg }
}

pub struct C03 {
    inner: ChatScn,
    cfg: Cfg,
}

impl Scenario for C03 {
    /// Which lines the fresh connection has sent so far (as a set) is part of the state key:
    /// two histories that leave the same visible state but differ in what has already been
    /// tried are explored separately - a connection may remember an earlier attempt in a way
    /// the published state does not show.
    fn key_hist(&self, hist: &[Act]) -> u64 {
        let mut seen: BTreeSet<&str> = BTreeSet::new();
        for a in hist {
            if let Act::Send(1, l) = a {
                seen.insert(l.as_str());
            }
        }
        1 + (crate::canon::hash128(&seen) as u64 >> 1)
    }
    fn name(&self) -> String {
        self.inner.name()
    }
    fn slots(&self) -> usize {
        2
    }
    fn config(&self) -> crate::config::MainConfig {
        self.inner.config()
    }
    fn spec_cfg(&self) -> crate::spec::SpecCfg {
        self.inner.spec_cfg()
    }
    fn prelude(&self, w: &mut World) -> Result<(), crate::world::MachineryError> {
        // the witness registers legitimately and owns a channel
        w.connect(0)?;
        if self.cfg.password.is_some() {
            w.send(0, "PASS right")?;
        }
        w.send(0, "NICK wit")?;
        w.send(0, "USER wu 0 * :Real wu")?;
        w.send(0, "JOIN #w")?;
        Ok(())
    }
    fn actions(&self, v: &View) -> Vec<Act> {
        self.inner.actions(v)
    }
    fn probes(&self, v: &View) -> Vec<Act> {
        self.inner.probes(v)
    }
    fn focus(&self) -> Focus {
        Focus::all()
    }
    fn step_oracle(&self, pre: &View, obs: &StepObs, post: &View, goals: &mut BTreeSet<String>) -> Vec<Finding> {
        let mut out = vec![];
        // coverage facts
        for l in &obs.lines[1] {
            for code in ["451", "464", "001", "433"] {
                if l.contains(&format!(" {} ", code)) {
                    goals.insert(format!("saw-{}", code));
                }
            }
        }
        // a registered user must correspond to a completed registration and vice versa
        if post.registered(1) != post.infos[1].as_ref().map_or(false, |i| i.authenticated && post.life[1] == Life::Live) {
            out.push(finding("auth-mismatch", "connection authenticated flag and user registry disagree".into()));
        }
        let _ = pre;
        out
    }
    fn goals(&self) -> Vec<&'static str> {
        let mut g = vec!["saw-451", "saw-001"];
        if (self.cfg.password.is_some() || self.cfg.users.iter().any(|u| u.2.is_some())) && self.cfg.label != "user-mask-mismatch" {
            g.push("saw-464");
        }
        g
    }
}

/// Two users whose nicknames share their first 200 characters.
pub fn c02_long_scn() -> ChatScn {
    let leak = |s: String| -> &'static str { Box::leak(s.into_boxed_str()) };
    let t = "L".repeat(200);
    let mut s = ChatScn::new("c02-long-nicks", Cfg::default(), vec![part(0, leak(t.clone()), leak(format!("{}y", t)), "lu"), part(1, "bob", leak(format!("{}x", t)), "bu"), part(2, "wit", "witty", "wu")], 0);
    for slot in 0..2 {
        for t in ["NICK {alt}", "AWAY :gone", "JOIN #x", "QUIT"] {
            s.alphabet_for.push((slot, t));
        }
    }
    s.ends = vec!["eof"];
    s.focus = Focus::all();
    s.invariants = vec!["membership-symmetry", "dangling-member"];
    s.state_oracle = Some(Box::new(|_scn, _w, v, _g| ownership_bijection(v)));
    for slot in 0..2 {
        s.probes_for.push((slot, "PRIVMSG wit :p"));
    }
    s.probes_for.push((2, "ISON bob {peer}"));
    s.probe_focus = Some(Focus { cats: vec![], relays: true, relay_verbs: Some(vec!["PRIVMSG"]), actor: true, actor_codes: Some(vec!["303", "301", "401"]), closes: false });
    s
}

pub fn plan(property: &str, quick: bool) -> Plan {
    match property {
        "C02" => {
            let mut parts: Vec<Part> = vec![];
            parts.push(Part::Bfs(Box::new(c02_scn("c02-contend", false, !quick)), lim(if quick { 9 } else { 8 }, 3_000_000, if quick { 40.0 } else { 900.0 })));
            parts.push(Part::Bfs(Box::new(WithPrelude { inner: c02_scn("c02-contend-password", true, !quick) }), lim(if quick { 8 } else { 8 }, 3_000_000, if quick { 20.0 } else { 900.0 })));
            if !quick {
                parts.push(Part::Custom(
                    "bind:c02-contend".into(),
                    Box::new(|| {
                        let scn = c02_scn("c02-contend", false, false);
                        let pre = vec![Act::Connect(0), Act::Send(0, "NICK wit".into()), Act::Send(0, "USER wu 8 * :Real wu".into())];
                        let (bin, dir) = crate::props::bind_paths();
                        let cfg = scn.cfg.clone();
                        crate::bind::run_bind("bind:c02-contend", &scn, &cfg, &pre, 5, 3000, &bin, &dir)
                    }),
                ));
            }
            // "modify only the user it registered itself": two users whose nicknames differ only in
            // letter case are two users (scenario shared with C11)
            parts.push(Part::Bfs(Box::new(super::life::c11_case_scn()), lim(if quick { 4 } else { 5 }, 2_000_000, if quick { 20.0 } else { 300.0 })));
            // "a connection whose registration was refused (... mask mismatch) ... has no effect":
            // the contended registration with a configured user mask (scenario shared with C14)
            parts.push(Part::Bfs(Box::new(super::c14::user_mask_contended(!quick)), lim(if quick { 6 } else { 7 }, 2_000_000, if quick { 20.0 } else { 600.0 })));
            // nicknames at and beyond the advertised NICKLEN (200): the server accepts longer
            // ones, so they are whole nicknames - a longer name is not the user whose name is
            // its 200-character prefix
            parts.push(Part::Bfs(Box::new(c02_long_scn()), lim(if quick { 4 } else { 5 }, 2_000_000, if quick { 20.0 } else { 300.0 })));
            // simultaneous claims at every interleaving the runtime can produce (the password
            // check and the lock hand-over are scheduling points): the registration bursts of C18
            for b in ["reg-race-2", "reg-race-2-user-first", "reg-race-2-password", "nick-vs-registration", "nick-race", "kill-vs-reregistration"] {
                let name = b.to_string();
                parts.push(Part::Custom(format!("int:{}", b), Box::new(move || super::c18::burst_part(&name))));
            }
            Plan {
                property: "C02".into(),
                rule: "E-SEQ BFS: 2 (thorough: 3) contending connections + a registered witness; nick menu {x,y,z}; alphabet NICK/USER/PASS good|bad/CAP/QUIT/EOF for unregistered connections, PRIVMSG/JOIN/NICK/MODE/AWAY/QUIT/EOF for registered ones, and attempts to act by unregistered/refused connections. Oracles: Spec (a refused or incomplete registration changes nothing and delivers nothing), bijection between registered nicknames and owning connections in every state, attribution and reachability of every owner after every step".into(),
                assumptions: vec!["sequential interleavings at command granularity; finer schedules are C18's".into()],
                parts,
            }
        }
        "C03" => {
            let mut parts: Vec<Part> = vec![];
            for cfg in c03_configs() {
                parts.push(Part::Bfs(Box::new(c03_scn(cfg, !quick)), lim(if quick { 7 } else { 9 }, 3_000_000, if quick { 8.0 } else { 600.0 })));
            }
            Plan {
                property: "C03".into(),
                rule: "E-SEQ BFS over 7 configurations (no password; server password; configured user with password; with matching / non-matching mask; user + server password; user without password under a server password): a fresh connection sends every order and repetition of PASS right|wrong|userpw, NICK, USER cfguser|other, CAP LS/REQ/END, AUTHENTICATE, QUIT up to the depth bound; in every pre-registration state a battery of 30 gated commands must each get exactly 451 and change/reveal nothing. Oracle: Spec registration machine (001 iff NICK, USER, no open CAP, mask ok, required password supplied; 464 + close + no user otherwise)".into(),
                assumptions: vec![],
                parts,
            }
        }
        _ => unreachable!(),
    }
}

/// "Predefined users" as C20 sees them: the configurations of C03 that declare a
/// user (password, matching and non-matching mask, next to a server password).
pub fn c20_user_parts(quick: bool) -> Vec<Part> {
    let mut parts = vec![];
    for cfg in c03_configs() {
        if ["user-mask-match", "user-mask-mismatch", "user+server-password"].contains(&cfg.label.as_str()) {
            parts.push(Part::Bfs(Box::new(c03_scn(cfg, false)), lim(if quick { 6 } else { 8 }, 2_000_000, if quick { 8.0 } else { 300.0 })));
        }
    }
    parts
}

pub fn scenarios(property: &str) -> Vec<Box<dyn Scenario>> {
    let mut v: Vec<Box<dyn Scenario>> = vec![];
    match property {
        "C02" => {
            for full in [false, true] {
                v.push(Box::new(c02_scn("c02-contend", false, full)));
                v.push(Box::new(WithPrelude { inner: c02_scn("c02-contend-password", true, full) }));
            }
        }
        "C03" => {
            for cfg in c03_configs() {
                v.push(Box::new(c03_scn(cfg, true)));
            }
        }
        _ => {}
    }
    v
}
