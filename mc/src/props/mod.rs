//! Per-property plans (scenarios, bounds, oracles).

use crate::bfs::{Limits, Scenario};
use crate::run::{Part, Plan};

pub mod common;
pub mod ghost;
pub mod c04;
pub mod c05;
pub mod c14;
pub mod chat;
pub mod reg;
pub mod life;
pub mod c12;
pub mod c13;
pub mod c17;
pub mod c18;
pub mod c20;

pub fn threads() -> usize {
    std::env::var("VERIF_THREADS")
        .ok()
        .and_then(|s| s.parse().ok())
        .unwrap_or_else(|| std::thread::available_parallelism().map(|n| n.get()).unwrap_or(8))
}

/// (production binary built without the cfg, scratch dir) for E-BIND
pub fn bind_paths() -> (String, String) {
    let v = std::env::var("VERIF_DIR").unwrap_or_else(|_| "/verif".into());
    let dir = format!("{}/target/bindtmp", v);
    let _ = std::fs::create_dir_all(&dir);
    (format!("{}/target/bind/release/simple-irc-server", v), dir)
}

pub const PART_WALL_CEILING_S: f64 = 150.0;

pub fn lim(depth: usize, max_states: u64, max_secs: f64) -> Limits {
    // VERIF_DEPTH_DELTA: experiment knob (not used by registered commands)
    let delta: i64 = std::env::var("VERIF_DEPTH_DELTA").ok().and_then(|s| s.parse().ok()).unwrap_or(0);
    let depth = (depth as i64 + delta).max(1) as usize;
    // one wall-clock ceiling for every E-SEQ part of the thorough tier, so that the whole
    // thorough sweep of twenty properties stays runnable (and was run) in one sitting; the
    // depth bound is unchanged, a part that reaches the ceiling reports the last depth it closed
    // VERIF_CAP_SCALE: experiment knob (not used by registered commands): stretches the wall
    // caps when several detection runs share the machine, so that contention costs time, not depth
    let scale: f64 = std::env::var("VERIF_CAP_SCALE").ok().and_then(|s| s.parse().ok()).unwrap_or(1.0);
    let max_secs = max_secs.min(PART_WALL_CEILING_S) * scale;
    Limits {
        depth,
        max_states,
        max_secs,
        threads: threads(),
    }
}

pub fn plan(property: &str, tier: &str) -> Option<Plan> {
    let quick = tier != "thorough";
    match property {
        "C04" => Some(c04::plan(quick)),
        "C05" => Some(c05::plan(quick)),
        "C14" => Some(c14::plan(quick)),
        "C02" | "C03" => Some(reg::plan(property, quick)),
        "C06" | "C11" | "C19" => Some(life::plan(property, quick)),
        "C12" => Some(c12::plan(quick)),
        "C13" => Some(c13::plan(quick)),
        "C17" => Some(c17::plan(quick)),
        "C18" => Some(c18::plan(quick)),
        "C20" => Some(c20::plan(quick)),
        "C01" | "C07" | "C08" | "C09" | "C10" | "C15" | "C16" => Some(chat::plan(property, quick)),
        _ => None,
    }
}

/// All scenarios of a property (both tiers) for replay lookup.
pub fn find_scenario(property: &str, name: &str) -> Option<Box<dyn Scenario>> {
    for tier in ["quick", "thorough"] {
        if let Some(p) = plan(property, tier) {
            for part in p.parts {
                if let Part::Bfs(s, _) = part {
                    if s.name() == name {
                        return Some(s);
                    }
                }
            }
        }
    }
    None
}

pub const ALL: &[&str] = &[
    "C01", "C02", "C03", "C04", "C05", "C06", "C07", "C08", "C09", "C10", "C11", "C12", "C13", "C14", "C15", "C16", "C17", "C18", "C19", "C20",
];

pub fn replay_fun(property: &str, scenario: &str, input: &serde_json::Value) -> Vec<crate::check::Finding> {
    if scenario.starts_with("int:") {
        // E-INT bursts are defined in c18.rs whichever property's plan runs them
        return c18::replay_fun(input);
    }
    match property {
        "C04" => c04::replay_fun(scenario, input),
        "C05" => c05::replay_fun(scenario, input),
        "C06" if scenario == "fun:c06-unread-output" => life::c06_unread_case(input["cap"].as_u64().unwrap_or(2560) as usize, input["source"].as_str().unwrap_or("both")),
        "C14" => c14::replay_fun(scenario, input),
        "C13" => c13::replay_fun(scenario, input),
        "C18" => c18::replay_fun(input),
        "C20" if scenario == "fun:c16-lattice" => chat::replay_fun("C16", scenario, input),
        "C20" => c20::replay_fun(scenario, input),
        "C01" | "C07" | "C08" | "C09" | "C16" => chat::replay_fun(property, scenario, input),
        "C17" => c17::replay_fun(scenario, input),
        _ => vec![],
    }
}
