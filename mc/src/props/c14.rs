//! C14 - mask matching is exact glob semantics and always terminates with an answer.

use super::common::*;
use super::threads;
use crate::bfs::Violation;
use crate::check::Finding;
use crate::fun::{all_strings, count_strings, nth_string, par_ranges};
use crate::run::{Part, PartResult, Plan};
use crate::scn::Cfg;
use crate::spec::{glob, normalize_mask, SpecOper};
use crate::utils::{match_wildcard, normalize_sourcemask};
use crate::world::{guarded, Life, World};
use serde_json::{json, Value};
use std::collections::BTreeSet;
use std::time::Instant;

const MASK_ALPHA: [char; 4] = ['a', 'b', '*', '?'];
const TEXT_ALPHA: [char; 3] = ['a', 'b', 'é'];

pub fn case_glob(mask: &str, text: &str) -> Vec<Finding> {
    let want = glob(mask, text);
    match guarded(|| match_wildcard(mask, text)) {
        Err(p) => vec![finding("glob:panic", format!("match_wildcard({:?}, {:?}) aborted: {}", mask, text, p))],
        Ok(got) => {
            if got != want {
                vec![finding("glob:wrong", format!("match_wildcard({:?}, {:?}) = {} but glob semantics give {}", mask, text, got, want))]
            } else {
                vec![]
            }
        }
    }
}

pub fn case_norm(mask: &str) -> Vec<Finding> {
    let want = normalize_mask(mask);
    match guarded(|| normalize_sourcemask(mask)) {
        Err(p) => vec![finding("norm:panic", format!("normalize_sourcemask({:?}) aborted: {}", mask, p))],
        Ok(got) => {
            if got != want {
                vec![finding("norm:wrong", format!("normalize_sourcemask({:?}) = {:?}, completion rules give {:?}", mask, got, want))]
            } else {
                vec![]
            }
        }
    }
}

fn fun_violation(scenario: &str, f: Finding, input: Value) -> Violation {
    Violation {
        scenario: scenario.to_string(),
        sig: f.sig,
        detail: f.detail,
        history: vec![],
        transcript: vec![input.to_string()],
    }
}

fn part_glob(max_mask: u32, max_text: u32) -> PartResult {
    let t0 = Instant::now();
    let mut r = PartResult::new("fun:glob", "E-FUN");
    let texts = all_strings(&TEXT_ALPHA, max_text);
    let nm = count_strings(MASK_ALPHA.len() as u64, max_mask);
    let res = par_ranges(nm, threads(), 64, |a, b| {
        let mut viol = vec![];
        let mut evals = 0u64;
        let mut trues = 0u64;
        for i in a..b {
            let mask = nth_string(&MASK_ALPHA, max_mask, i);
            for t in &texts {
                evals += 1;
                if glob(&mask, t) {
                    trues += 1;
                }
                for f in case_glob(&mask, t) {
                    if viol.len() < 20 {
                        viol.push(fun_violation("fun:glob", f, json!({"mask": mask, "text": t})));
                    }
                }
            }
        }
        (evals, trues, viol)
    });
    let mut trues = 0;
    for (e, t, v) in res {
        r.evaluations += e;
        trues += t;
        r.violations.extend(v);
    }
    // the multi-byte / long-literal corner cases named by the statement, explicitly
    for (m, t) in [("", ""), ("*", ""), ("", "a"), ("?", "é"), ("*?", "é"), ("*abc", "ab"), ("a*bcd", "axb"), ("é", "é"), ("*é*", "aéb"), ("??", "é"), ("a*", "a"), ("*a", "a"), ("*a*a*a*a*a*a*a*a*a*a*b", "aaaaaaaaaaaaaaaaaaaaaaaaaaaaaaaaaaaaaaaaaaaaaaaaaaaa")] {
        r.evaluations += 1;
        for f in case_glob(m, t) {
            r.violations.push(fun_violation("fun:glob", f, json!({"mask": m, "text": t})));
        }
    }
    r.states = nm * texts.len() as u64;
    r.transitions = r.evaluations;
    r.distinct = r.evaluations;
    r.traces = r.evaluations;
    r.exhaustive = true;
    r.samples = vec![json!({"mask":"a*b?","text":"aébb","expected": glob("a*b?","aébb")}), json!({"mask":"*abc","text":"ab","expected":false})];
    r.extra = json!({"masks": nm, "texts": texts.len(), "mask_alphabet": "a b * ?", "text_alphabet": "a b é", "max_mask_len": max_mask, "max_text_len": max_text, "pairs_matching": trues, "pairs_not_matching": r.evaluations - trues});
    if trues == 0 || trues == r.evaluations {
        r.machinery = Some("vacuous: reference glob gave one outcome only".into());
    }
    r.wall_s = t0.elapsed().as_secs_f64();
    r
}

fn part_norm(max: u32) -> PartResult {
    let t0 = Instant::now();
    let mut r = PartResult::new("fun:normalize", "E-FUN");
    // one multi-byte character: the completion rules cut the mask at '!' and '@'
    let alpha = ['n', '!', '@', '*', 'é'];
    let all = all_strings(&alpha, max);
    let mut outs = BTreeSet::new();
    for m in &all {
        r.evaluations += 1;
        outs.insert(normalize_mask(m).matches(|c| c == '!' || c == '@').count());
        for f in case_norm(m) {
            if r.violations.len() < 20 {
                r.violations.push(fun_violation("fun:normalize", f, json!({"mask": m})));
            }
        }
    }
    r.states = all.len() as u64;
    r.transitions = r.evaluations;
    r.distinct = r.evaluations;
    r.traces = r.evaluations;
    r.exhaustive = true;
    r.samples = vec![json!({"mask":"n","expected":"n!*@*"}), json!({"mask":"n@n","expected":"n!*@n"}), json!({"mask":"n!n","expected":"n!n@*"})];
    r.extra = json!({"alphabet":"n ! @ * é","max_len":max});
    r.wall_s = t0.elapsed().as_secs_f64();
    r
}

// "A": the comparison is case-sensitive; "a?": a nickname may itself contain a mask
// character - an argument spelled like it is still a mask
const IDENTS: [&str; 6] = ["a", "aa", "ab", "b", "A", "a?"];

/// Register with a real name that ends in a character outside the mask alphabets, so that
/// a mask anchored at the end of the text can only match the nickname (WHO compares the
/// nickname, the source and the real name).
fn reg_dot(w: &mut World, slot: usize, nick: &str, user: &str) -> Result<(), crate::world::MachineryError> {
    w.connect(slot)?;
    w.send(slot, &format!("NICK {}", nick))?;
    w.send(slot, &format!("USER {} 8 * :Real {}.", user, user))?;
    Ok(())
}

fn ident_source(n: &str) -> String {
    format!("{}!~u{}@127.0.0.1", n, n)
}

/// One wire case: `caller` in {ban, except, invex, speak, who, whois, oper, usermask}.
pub fn case_wire(caller: &str, mask: &str, ident: &str) -> Vec<Finding> {
    let mut out = vec![];
    // "a^": the identity registered under another nick and then changed to "a" - the text
    // a mask is compared with is the user's *current* nick!user@host
    let (ident, renamed) = match ident.strip_suffix('^') {
        Some(i) => (i, true),
        None => (ident, false),
    };
    let src = ident_source(ident);
    let norm = normalize_mask(mask);
    let mut cfg = Cfg::default();
    if caller == "oper" {
        cfg.opers = vec![SpecOper { name: "op".into(), password: "oppw".into(), mask: Some(mask.to_string()) }];
    }
    if caller == "usermask" {
        cfg.users = vec![(format!("u{}", ident), ident.to_string(), None, Some(mask.to_string()))];
    }
    let mut w = World::new(cfg.main_config(), 8);
    macro_rules! m {
        ($e:expr) => {
            match $e {
                Ok(v) => v,
                Err(e) => return vec![finding("machinery", e.0)],
            }
        };
    }
    m!(w.register(0, "founder", "fu"));
    // the other identities are always present so that WHO/WHOIS result sets are interesting
    if caller == "usermask" {
        m!(w.connect(1));
        m!(w.send(1, &format!("NICK {}", ident)));
        m!(w.send(1, &format!("USER u{} 0 * :real", ident)));
        let ls = w.take_lines(1);
        let ok = ls.iter().any(|l| l.contains(" 001 "));
        let want = glob(mask, &src);
        if ok != want {
            out.push(finding("wire:usermask", format!("user mask {:?} vs {:?}: registration {} but glob says {}", mask, src, ok, want)));
        }
        return out;
    }
    for (k, id) in IDENTS.iter().enumerate() {
        if renamed && *id == ident {
            m!(reg_dot(&mut w, 1 + k, &format!("old{}", id), &format!("u{}", id)));
            m!(w.send(1 + k, &format!("NICK {}", id)));
        } else {
            m!(reg_dot(&mut w, 1 + k, id, &format!("u{}", id)));
        }
    }
    let slot = 1 + IDENTS.iter().position(|x| *x == ident).unwrap();
    w.take_all();
    let panicked = |w: &World| w.conns.iter().any(|c| matches!(c.life, Life::Panicked(_)));
    match caller {
        "ban" | "except" | "invex" | "speak" => {
            m!(w.send(0, "JOIN #c"));
            let letter = match caller {
                "ban" | "speak" => "b",
                "except" => "e",
                _ => "I",
            };
            // a member without rank (another identity), on the channel before any list is set
            let other_slot = 1 + IDENTS.iter().position(|x| *x != ident).unwrap();
            m!(w.send(other_slot, "JOIN #c"));
            if caller == "except" {
                m!(w.send(0, "MODE #c +b *!*@*"));
            }
            if caller == "invex" {
                m!(w.send(0, "MODE #c +i"));
            }
            w.take_all();
            m!(w.send(0, &format!("MODE #c +{} {}", letter, mask)));
            let ls = w.take_lines(0);
            // announced normalised
            let ann = ls.iter().filter_map(|l| crate::canon::parse_server_line(l)).find(|m| m.cmd == "MODE");
            match &ann {
                Some(a) if a.params.len() >= 3 && a.params[2] == norm => {}
                other => out.push(finding("wire:announce", format!("MODE #c +{} {} announced as {:?}, expected mask {:?}", letter, mask, other.as_ref().map(|m| m.params.clone()), norm))),
            }
            // stored normalised
            let snap = w.snapshot();
            let ch = snap.channels.iter().find(|c| c.name == "#c");
            let stored: Vec<String> = match (ch, caller) {
                (Some(c), "ban") | (Some(c), "speak") => c.ban.clone(),
                (Some(c), "except") => c.exception.clone(),
                (Some(c), _) => c.invite_exception.clone(),
                _ => vec![],
            };
            if !stored.contains(&norm) {
                out.push(finding("wire:stored", format!("+{} {} stored as {:?}, expected to contain {:?}", letter, mask, stored, norm)));
            }
            // listed normalised
            m!(w.send(0, &format!("MODE #c +{}", letter)));
            let ls = w.take_lines(0);
            let code = match letter {
                "b" => " 367 ",
                "e" => " 348 ",
                _ => " 346 ",
            };
            if !ls.iter().any(|l| l.contains(code) && l.split(' ').any(|t| t == norm)) {
                out.push(finding("wire:listed", format!("+{} list does not show {:?}: {:?}", letter, norm, ls)));
            }
            // removal with the same (possibly abbreviated) mask removes the stored,
            // normalised entry and is announced normalised; then it is set again
            m!(w.send(0, &format!("MODE #c -{} {}", letter, mask)));
            let ls = w.take_lines(0);
            let ann = ls.iter().filter_map(|l| crate::canon::parse_server_line(l)).find(|m| m.cmd == "MODE");
            match &ann {
                Some(a) if a.params.len() >= 3 && a.params[2] == norm => {}
                other => out.push(finding("wire:announce-removal", format!("MODE #c -{} {} announced as {:?}, expected mask {:?}", letter, mask, other.as_ref().map(|m| m.params.clone()), norm))),
            }
            let snap = w.snapshot();
            let ch = snap.channels.iter().find(|c| c.name == "#c");
            let still: Vec<String> = match (ch, caller) {
                (Some(c), "ban") | (Some(c), "speak") => c.ban.clone(),
                (Some(c), "except") => c.exception.clone(),
                (Some(c), _) => c.invite_exception.clone(),
                _ => vec![],
            };
            if still.contains(&norm) {
                out.push(finding("wire:removal", format!("-{} {} did not remove the stored mask {:?}: {:?}", letter, mask, norm, still)));
            }
            m!(w.send(0, &format!("MODE #c +{} {}", letter, mask)));
            w.take_all();
            // the stored mask is what is compared from now on: attempts by a member without
            // rank (refused) leave the list as it is
            for l in [format!("MODE #c +{} zz", letter), format!("MODE #c -{} {}", letter, mask)] {
                m!(w.send(other_slot, &l));
            }
            let snap = w.snapshot();
            let after: Vec<String> = match (snap.channels.iter().find(|c| c.name == "#c"), caller) {
                (Some(c), "ban") | (Some(c), "speak") => c.ban.clone(),
                (Some(c), "except") => c.exception.clone(),
                (Some(c), _) => c.invite_exception.clone(),
                _ => vec![],
            };
            if !after.contains(&norm) || after.iter().any(|x| x.starts_with("zz")) {
                out.push(finding("wire:refused-change", format!("after refused +{}/-{} attempts by a plain member the list is {:?}, expected to hold exactly what the operator set ({:?})", letter, letter, after, norm)));
            }
            // the text compared is the user's nick!user@host as registered: a re-sent USER
            // (refused, 462) does not change it
            m!(w.send(slot, "USER zz 8 * :x"));
            w.take_all();
            // enforced
            let matches = glob(&norm, &src);
            if caller == "speak" {
                m!(w.send(slot, "PRIVMSG #c :hello"));
                let mine = w.take_lines(slot);
                let theirs = w.take_lines(0);
                let refused = mine.iter().any(|l| l.contains(" 404 "));
                let delivered = theirs.iter().any(|l| l.contains("PRIVMSG #c :hello"));
                if refused != matches || delivered == matches {
                    out.push(finding("wire:speak", format!("ban {:?} vs {:?}: 404={} delivered={} but glob says banned={}", norm, src, refused, delivered, matches)));
                }
            } else {
                m!(w.send(slot, "JOIN #c"));
                let mine = w.take_lines(slot);
                let joined = mine.iter().any(|l| l.contains("JOIN #c"));
                let want_join = match caller {
                    "ban" => !matches,
                    _ => matches,
                };
                let code = match caller {
                    "ban" | "except" => " 474 ",
                    _ => " 473 ",
                };
                let refused = mine.iter().any(|l| l.contains(code));
                if joined != want_join || refused == want_join {
                    out.push(finding(&format!("wire:{}", caller), format!("+{} {:?} vs {:?}: joined={} refused={} but glob match={}", letter, norm, src, joined, refused, matches)));
                }
            }
        }
        "who" | "whois" => {
            if !(mask.contains('*') || mask.contains('?')) {
                return out; // literal names are not pattern comparisons
            }
            let cmd = if caller == "who" { "WHO" } else { "WHOIS" };
            m!(w.send(0, &format!("{} {}", cmd, mask)));
            let ls = w.take_lines(0);
            let code = if caller == "who" { "352" } else { "311" };
            let mut got = BTreeSet::new();
            for l in &ls {
                if let Some(m) = crate::canon::parse_server_line(l) {
                    if m.cmd == code {
                        let n = if caller == "who" { m.params.get(5) } else { m.params.get(1) };
                        if let Some(n) = n {
                            got.insert(n.clone());
                        }
                    }
                }
            }
            let mut want = BTreeSet::new();
            let mut all: Vec<(String, String, String)> = IDENTS.iter().map(|i| (i.to_string(), ident_source(i), format!("Real u{}.", i))).collect();
            all.push(("founder".into(), "founder!~fu@127.0.0.1".into(), "Real fu".into()));
            for (n, s, r) in &all {
                let hit = if caller == "who" { glob(mask, n) || glob(mask, s) || glob(mask, r) } else { glob(mask, n) };
                if hit {
                    want.insert(n.clone());
                }
            }
            if got != want {
                out.push(finding(&format!("wire:{}", caller), format!("{} {:?} listed {:?}, glob semantics give {:?}", cmd, mask, got, want)));
            }
        }
        "oper" => {
            m!(w.send(slot, "USER zz 8 * :x"));
            w.take_all();
            m!(w.send(slot, "OPER op oppw"));
            let ls = w.take_lines(slot);
            let ok = ls.iter().any(|l| l.contains(" 381 "));
            let no = ls.iter().any(|l| l.contains(" 491 "));
            let want = glob(mask, &src);
            if ok != want || no == want {
                out.push(finding("wire:oper", format!("operator mask {:?} vs {:?}: 381={} 491={} but glob says {}", mask, src, ok, no, want)));
            }
        }
        _ => {}
    }
    if panicked(&w) {
        let msg: Vec<String> = w.conns.iter().filter_map(|c| if let Life::Panicked(m) = &c.life { Some(m.clone()) } else { None }).collect();
        out.push(finding("wire:panic", format!("{} mask {:?} ident {:?}: connection task aborted: {:?}", caller, mask, ident, msg)));
    }
    out
}

fn part_wire(max: u32) -> PartResult {
    let t0 = Instant::now();
    let mut r = PartResult::new("fun:wire", "E-FUN");
    let masks: Vec<String> = all_strings(&['a', '*', '?'], max).into_iter().filter(|m| !m.is_empty()).collect();
    let callers = ["ban", "except", "invex", "speak", "who", "whois", "oper", "usermask"];
    let mut cases = vec![];
    for c in callers {
        for m in &masks {
            for id in IDENTS {
                if (c == "who" || c == "whois") && id != "a" {
                    continue;
                }
                cases.push((c, m.clone(), id));
            }
            // the same comparisons after the identity changed its nick to "a"
            if c == "who" || c == "whois" || c == "oper" || c == "speak" {
                cases.push((c, m.clone(), "a^"));
            }
        }
    }
    // letter case: a mask matches only the identity written in the same case
    for m in ["A", "a", "A*", "A!*@*", "a!~uA@*", "A!~uA@127.0.0.1", "*!~ua@*"] {
        for c in ["ban", "except", "invex", "speak", "oper", "usermask", "who", "whois"] {
            for id in ["a", "A"] {
                cases.push((c, m.to_string(), id));
            }
        }
    }
    for m in ["a!*@*", "a!~ua@*", "*!~ua@127.0.0.1", "olda!*@*", "old*!*@*", "?!~ua@*", "a@127.0.0.1"] {
        for c in ["who", "ban", "speak", "oper", "invex"] {
            cases.push((c, m.to_string(), "a^"));
        }
    }
    // masks with all three parts and partial forms (completion rules on the wire)
    for m in ["a!*@*", "a!~ua@*", "*!*@127.0.0.1", "a@127.0.0.1", "a!~ua", "*@*", "?!*", "*!~u?@*", "aa!~uaa@127.0.0.1", "*!~uab@127.0.0.?",
        // longer than the text it matches: every wildcard stands for an empty run
        "*a*!*~ua*@*127.0.0.1*", "**a**!**@**"] {
        for c in ["ban", "except", "invex", "speak", "oper", "usermask"] {
            for id in IDENTS {
                cases.push((c, m.to_string(), id));
            }
        }
    }
    // "yields an answer for every mask": host parts are not only dotted quads - a mask may
    // carry colons (IPv6 literals) wherever the grammar lets a middle parameter carry them
    for m in ["*!*@::1", "*!*@2001:db8:*", "a!*@*:*", "*!*@*:0.1", "a*!~u?@fe80::*"] {
        for c in ["ban", "except", "invex", "speak"] {
            for id in ["a", "ab"] {
                cases.push((c, m.to_string(), id));
            }
        }
    }
    let n = cases.len() as u64;
    let res = par_ranges(n, threads(), 8, |a, b| {
        let mut v = vec![];
        let mut matched = 0u64;
        for i in a..b {
            let (c, m, id) = &cases[i as usize];
            if glob(&normalize_mask(m), &ident_source(id)) {
                matched += 1;
            }
            for f in case_wire(c, m, id) {
                v.push(fun_violation("fun:wire", f, json!({"caller": c, "mask": m, "ident": id})));
            }
        }
        (v, matched)
    });
    let mut matched = 0;
    for (v, mm) in res {
        r.violations.extend(v);
        matched += mm;
    }
    r.violations.truncate(40);
    r.evaluations = n;
    r.states = n;
    r.transitions = n;
    r.distinct = n;
    r.traces = n;
    r.exhaustive = true;
    r.samples = vec![json!({"caller":"ban","mask":"a?","ident":"ab","expect":"stored/announced/listed as a?!*@*, JOIN refused with 474"})];
    r.extra = json!({"callers": callers, "masks": masks.len() + 10, "identities": IDENTS, "cases_where_mask_matches_identity": matched});
    r.wall_s = t0.elapsed().as_secs_f64();
    r
}

pub fn replay_fun(scenario: &str, input: &Value) -> Vec<Finding> {
    match scenario {
        "fun:glob" => case_glob(input["mask"].as_str().unwrap_or(""), input["text"].as_str().unwrap_or("")),
        "fun:normalize" => case_norm(input["mask"].as_str().unwrap_or("")),
        "fun:wire" => case_wire(input["caller"].as_str().unwrap_or(""), input["mask"].as_str().unwrap_or(""), input["ident"].as_str().unwrap_or("a")),
        _ => vec![],
    }
}

/// The user mask is compared with the nick!user@host the connection has when its
/// registration completes - also when an earlier attempt of the same connection (under a
/// nickname that matched) was refused because somebody else had taken that nickname.
pub fn user_mask_contended(full: bool) -> crate::scn::ChatScn {
    use crate::check::Cat;
    let mut s = super::ghost::ghost_scn("c14-user-mask-contended", &[Cat::UserExistence, Cat::UserIdentity, Cat::UserModes], full);
    s.cfg.users = vec![("uu".into(), "bob".into(), None, Some("bob!~uu@*".into()))];
    s.cfg.label = "user-mask bob!~uu@*".into();
    s.parts[1].user = "uu";
    s.extra_actions = Some(Box::new(|scn, v| {
        let mut acts = vec![];
        for p in &scn.parts {
            if p.late && v.life[p.slot] == crate::world::Life::Live && v.nick(p.slot).is_none() {
                acts.push(crate::bfs::Act::Send(p.slot, format!("NICK {}", p.alt)));
            }
        }
        acts
    }));
    s
}

pub fn plan(quick: bool) -> Plan {
    let (mm, mt, mw) = if quick { (6, 6, 3) } else { (8, 7, 3) };
    Plan {
        property: "C14".into(),
        rule: format!("every mask of length <= {} over {{a,b,*,?}} against every text of length <= {} over {{a,b,é}} (plus named corner cases) through the real match_wildcard, compared with a recursive reference glob, each call under catch_unwind; every string <= 6 over {{n,!,@,*,é}} through normalize_sourcemask vs the three completion rules; wire conformance: every mask <= {} over {{a,*,?}} plus 10 multi-part masks, for 8 callers (+b, +e, +I, speaking, WHO, WHOIS, operator mask, user mask) and 4 identities, in a real server world", mm, mt, mw),
        assumptions: vec!["alphabets contain every character the matcher treats specially plus one multi-byte character".into()],
        parts: vec![
            Part::Custom("fun:glob".into(), Box::new(move || part_glob(mm, mt))),
            Part::Custom("fun:normalize".into(), Box::new(|| part_norm(6))),
            Part::Custom("fun:wire".into(), Box::new(move || part_wire(mw))),
            Part::Bfs(Box::new(user_mask_contended(!quick)), super::lim(if quick { 6 } else { 7 }, 2_000_000, if quick { 20.0 } else { 600.0 })),
        ],
    }
}
