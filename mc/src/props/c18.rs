//! C18 - per-connection order is kept and concurrent commands take effect atomically.

use super::threads;
use crate::bfs::Violation;
use crate::check::Finding;
use crate::dfs::{explore, run_schedule, sequential_outcomes, Burst};
use crate::run::{Part, PartResult, Plan};
use crate::scn::Cfg;
use crate::spec::SpecOper;
use serde_json::{json, Value};
use std::time::Instant;

fn s(x: &str) -> String {
    x.to_string()
}

fn base_cfg() -> Cfg {
    Cfg { opers: vec![SpecOper { name: "op".into(), password: "oppw".into(), mask: None }], ..Default::default() }
}

fn users3() -> Vec<(usize, String, String)> {
    vec![(0, s("alice"), s("au")), (1, s("bob"), s("bu")), (2, s("carol"), s("cu"))]
}

pub fn bursts() -> Vec<Burst> {
    // (C06 reuses the burst "kill-vs-reregistration" through `burst_part`)
    let mut v = vec![];
    let mk = |name: &str, cfg: Cfg, slots: usize, users: Vec<(usize, String, String)>, fresh: Vec<usize>, prelude: Vec<(usize, &str)>, lines: Vec<(usize, Vec<&str>)>| Burst {
        name: name.to_string(),
        cfg,
        slots,
        users,
        fresh,
        prelude: prelude.into_iter().map(|(a, b)| (a, b.to_string())).collect(),
        lines: lines.into_iter().map(|(a, b)| (a, b.into_iter().map(|x| x.to_string()).collect())).collect(),
        max_schedules: 3_000_000,
        reduce: true,
    };
    let wit = || vec![(0usize, s("wit"), s("wu"))];
    // simultaneous claims to one nickname
    v.push(mk("reg-race-2", base_cfg(), 3, wit(), vec![1, 2], vec![], vec![(1, vec!["NICK x", "USER u1 0 * :r"]), (2, vec!["NICK x", "USER u2 0 * :r"])]));
    v.push(mk("reg-race-2-user-first", base_cfg(), 3, wit(), vec![1, 2], vec![(1, "USER u1 0 * :r"), (2, "USER u2 0 * :r")], vec![(1, vec!["NICK x"]), (2, vec!["NICK x"])]));
    let mut pw = base_cfg();
    pw.password = Some("good".into());
    v.push(Burst {
        name: s("reg-race-2-password"),
        cfg: pw,
        slots: 3,
        users: vec![],
        fresh: vec![0, 1, 2],
        prelude: vec![(0, s("PASS good")), (0, s("NICK wit")), (0, s("USER wu 0 * :r")), (1, s("PASS good")), (2, s("PASS good")), (1, s("USER u1 0 * :r")), (2, s("USER u2 0 * :r"))],
        lines: vec![(1, vec![s("NICK x")]), (2, vec![s("NICK x")])],
        max_schedules: 3_000_000,
        reduce: true,
    });
    v.push(mk("reg-race-3", base_cfg(), 4, wit(), vec![1, 2, 3], vec![(1, "USER u1 0 * :r"), (2, "USER u2 0 * :r"), (3, "USER u3 0 * :r")], vec![(1, vec!["NICK x"]), (2, vec!["NICK x"]), (3, vec!["NICK x"])]));
    // a registered user's NICK against a completing registration
    v.push(mk("nick-vs-registration", base_cfg(), 3, wit(), vec![1], vec![(1, "NICK x")], vec![(0, vec!["NICK x"]), (1, vec!["USER u1 0 * :r"])]));
    // two registered users change to the same nick
    v.push(mk("nick-race", base_cfg(), 3, users3(), vec![], vec![(0, "JOIN #c"), (1, "JOIN #c"), (2, "JOIN #c")], vec![(0, vec!["NICK z"]), (1, vec!["NICK z"])]));
    // simultaneous first joins
    v.push(mk("first-join-2", base_cfg(), 3, users3(), vec![], vec![], vec![(0, vec!["JOIN #new"]), (1, vec!["JOIN #new"])]));
    v.push(mk("first-join-3", base_cfg(), 3, users3(), vec![], vec![], vec![(0, vec!["JOIN #new"]), (1, vec!["JOIN #new"]), (2, vec!["JOIN #new"])]));
    // one remaining +l slot
    v.push(mk("limit-slot", base_cfg(), 3, users3(), vec![], vec![(0, "JOIN #c"), (0, "MODE #c +l 2")], vec![(1, vec!["JOIN #c"]), (2, vec!["JOIN #c"])]));
    // message fan-out against membership changes of a recipient / the sender
    let chan3: Vec<(usize, &str)> = vec![(0, "JOIN #c"), (1, "JOIN #c"), (2, "JOIN #c")];
    v.push(mk("privmsg-vs-part", base_cfg(), 3, users3(), vec![], chan3.clone(), vec![(0, vec!["PRIVMSG #c :m1"]), (1, vec!["PART #c"])]));
    v.push(mk("privmsg-vs-quit", base_cfg(), 3, users3(), vec![], chan3.clone(), vec![(0, vec!["PRIVMSG #c :m1"]), (1, vec!["QUIT"])]));
    v.push(mk("privmsg-vs-nick", base_cfg(), 3, users3(), vec![], chan3.clone(), vec![(0, vec!["PRIVMSG #c :m1", "PRIVMSG bob :m2"]), (1, vec!["NICK bobby"])]));
    v.push(mk("privmsg-vs-kick-of-sender", base_cfg(), 3, users3(), vec![], chan3.clone(), vec![(1, vec!["PRIVMSG #c :m1"]), (0, vec!["KICK #c bob"])]));
    v.push(mk("privmsg-vs-ban", base_cfg(), 3, users3(), vec![], vec![(0, "JOIN #c"), (1, "JOIN #c"), (2, "JOIN #c"), (0, "MODE #c +n")], vec![(1, vec!["PRIVMSG #c :m1", "PRIVMSG #c :m2"]), (0, vec!["MODE #c +m"])]));
    // invitation against the join it admits
    v.push(mk("invite-vs-join", base_cfg(), 3, users3(), vec![], vec![(0, "JOIN #c"), (0, "MODE #c +i")], vec![(0, vec!["INVITE bob #c"]), (1, vec!["JOIN #c"])]));
    // OPER holds the state lock across the password check
    v.push(mk("oper-vs-privmsg", base_cfg(), 3, users3(), vec![], chan3.clone(), vec![(0, vec!["OPER op oppw"]), (1, vec!["PRIVMSG #c :m1"]), (2, vec!["MODE carol +i"])]));
    v.push(mk("oper-vs-oper", base_cfg(), 3, users3(), vec![], vec![], vec![(0, vec!["OPER op oppw", "LUSERS"]), (1, vec!["OPER op oppw"])]));
    // KILL against the victim's own command
    v.push(mk("kill-vs-victim", base_cfg(), 3, users3(), vec![], vec![(0, "OPER op oppw"), (0, "JOIN #c"), (1, "JOIN #c"), (2, "JOIN #c")], vec![(0, vec!["KILL bob :x"]), (1, vec!["PRIVMSG #c :last words"])]));
    // rank change against removal of the same member
    v.push(mk("mode-vs-kick", base_cfg(), 3, users3(), vec![], vec![(0, "JOIN #c"), (1, "JOIN #c"), (2, "JOIN #c"), (0, "MODE #c +o carol")], vec![(0, vec!["MODE #c +o bob"]), (2, vec!["KICK #c bob"])]));
    // per-connection order: sequence numbers
    v.push(mk("sequence-numbers", base_cfg(), 3, users3(), vec![], vec![], vec![(0, vec!["PRIVMSG bob :a.1", "PRIVMSG bob :a.2", "PING a.3"]), (1, vec!["PRIVMSG alice :b.1", "PING b.2"])]));
    v.push(mk("sequence-numbers-3", base_cfg(), 3, users3(), vec![], chan3.clone(), vec![(0, vec!["PRIVMSG #c :a.1", "PRIVMSG #c :a.2"]), (1, vec!["PRIVMSG #c :b.1", "PING b.2"]), (2, vec!["PING c.1", "TOPIC #c :c.2"])]));
    // last member leaves while another joins: channel destroyed or kept, never both
    v.push(mk("part-vs-join", base_cfg(), 3, users3(), vec![], vec![(0, "JOIN #c")], vec![(0, vec!["PART #c"]), (1, vec!["JOIN #c"])]));
    // a session ends (its teardown waits for the state lock, which OPER holds across the
    // password check) while a channel message is fanned out to the channel it is leaving:
    // every member that stays must get the message
    let users5 = || vec![(0usize, s("alice"), s("au")), (1, s("bob"), s("bu")), (2, s("carol"), s("cu")), (3, s("dave"), s("du")), (4, s("quin"), s("qu"))];
    v.push(mk(
        "oper-vs-quit-vs-privmsg",
        base_cfg(),
        5,
        users5(),
        vec![],
        vec![(0, "JOIN #c"), (1, "JOIN #c"), (2, "JOIN #c"), (3, "JOIN #c"), (4, "JOIN #c")],
        vec![(0, vec!["OPER op oppw"]), (4, vec!["QUIT"]), (1, vec!["PRIVMSG #c :m1"])],
    ));
    v.push(mk("oper-vs-eof-vs-topic", base_cfg(), 5, users5(), vec![], vec![(0, "JOIN #c"), (1, "JOIN #c"), (2, "JOIN #c"), (3, "JOIN #c"), (4, "JOIN #c")], vec![(0, vec!["OPER op oppw"]), (4, vec!["QUIT :bye"]), (1, vec!["TOPIC #c :t1"])]));
    // two members set the topic at the same time: every member ends up having seen the
    // final topic last (own echo and relayed announcements are one stream per member)
    v.push(mk("topic-vs-topic", base_cfg(), 3, users3(), vec![], chan3.clone(), vec![(0, vec!["TOPIC #c :from alice"]), (1, vec!["TOPIC #c :from bob"])]));
    // KILL against a new connection registering under the victim's nickname: the victim's
    // teardown must remove the victim, not whoever holds the nick by then
    v.push(mk(
        "kill-vs-reregistration",
        base_cfg(),
        4,
        users3(),
        vec![3],
        vec![(0, "OPER op oppw"), (3, "USER nu 0 * :r")],
        vec![(0, vec!["KILL bob :x"]), (3, vec!["NICK bob"])],
    ));
    // a query that reads the state while a writer queues behind it (OPER holds the write lock
    // across the password check, so both queue up and are released in order): everybody is answered
    v.push(mk("oper-vs-who-vs-away", base_cfg(), 3, users3(), vec![], chan3.clone(), vec![(0, vec!["OPER op oppw"]), (1, vec!["WHO alice"]), (2, vec!["AWAY :tea"])]));
    v.push(mk("oper-vs-whois-vs-nick", base_cfg(), 3, users3(), vec![], chan3.clone(), vec![(0, vec!["OPER op oppw"]), (1, vec!["WHOIS carol"]), (2, vec!["NICK caro"])]));
    v.push(mk("oper-vs-names-vs-join", base_cfg(), 3, users3(), vec![], vec![(0, "JOIN #c"), (1, "JOIN #c")], vec![(0, vec!["OPER op oppw"]), (1, vec!["NAMES #c"]), (2, vec!["JOIN #c"])]));
    v.push(mk("oper-vs-list-vs-topic", base_cfg(), 3, users3(), vec![], chan3.clone(), vec![(0, vec!["OPER op oppw"]), (1, vec!["LIST"]), (2, vec!["TOPIC #c :t"])]));
    // one command naming several channels is one step: nobody sees (or acts on) half of it
    let two: Vec<(usize, &'static str)> = vec![(0, "JOIN #a,#b"), (1, "JOIN #a,#b")];
    v.push(mk("part2-vs-whois", base_cfg(), 3, users3(), vec![], two.clone(), vec![(0, vec!["PART #a,#b"]), (1, vec!["WHOIS alice"])]));
    v.push(mk("part2-vs-privmsg2", base_cfg(), 3, users3(), vec![], two.clone(), vec![(0, vec!["PART #a,#b"]), (1, vec!["PRIVMSG #a,#b :x"])]));
    v.push(mk("join2-vs-names2", base_cfg(), 3, users3(), vec![], vec![(1, "JOIN #a,#b")], vec![(0, vec!["JOIN #a,#b"]), (1, vec!["NAMES #a,#b"])]));
    v.push(mk("kick2-vs-privmsg2", base_cfg(), 3, users3(), vec![], vec![(0, "JOIN #a"), (1, "JOIN #a"), (2, "JOIN #a")], vec![(0, vec!["KICK #a bob,carol"]), (1, vec!["PRIVMSG #a,carol :x"])]));
    // the effect of a KICK and its announcement are one step: the victim's re-JOIN (or a
    // newcomer's JOIN) comes before both or after both
    v.push(mk("kick-vs-rejoin", base_cfg(), 3, users3(), vec![], chan3.clone(), vec![(0, vec!["KICK #c bob :out"]), (1, vec!["JOIN #c"])]));
    v.push(mk("kick-vs-join", base_cfg(), 3, users3(), vec![], vec![(0, "JOIN #c"), (1, "JOIN #c")], vec![(0, vec!["KICK #c bob :out"]), (2, vec!["JOIN #c"])]));
    // a query that walks the channels while one of them vanishes is answered all the same
    // (one channel only: replies about several channels come in hash order)
    v.push(mk("list-vs-last-part", base_cfg(), 3, users3(), vec![], vec![(0, "JOIN #v")], vec![(0, vec!["PART #v"]), (1, vec!["LIST"])]));
    v.push(mk("names-vs-last-part", base_cfg(), 3, users3(), vec![], vec![(0, "JOIN #v")], vec![(0, vec!["PART #v"]), (1, vec!["NAMES"])]));
    // two operators take each other's rank away at the same time: one of them is too late
    v.push(mk("deop-vs-deop", base_cfg(), 3, users3(), vec![], vec![(0, "JOIN #c"), (1, "JOIN #c"), (2, "JOIN #c"), (0, "MODE #c +o bob"), (0, "MODE #c +o carol")], vec![(1, vec!["MODE #c -o carol"]), (2, vec!["MODE #c -o bob"])]));
    // INVITE and the invited user's own JOIN on a channel that anybody may enter: invited and
    // then admitted (the invitation is used up), or already a member (443) - never a member
    // that still holds an invitation for later
    v.push(mk("invite-vs-join-open", base_cfg(), 3, users3(), vec![], vec![(0, "JOIN #c")], vec![(0, vec!["INVITE bob #c"]), (1, vec!["JOIN #c"])]));
    v.push(mk("invite-vs-part", base_cfg(), 3, users3(), vec![], vec![(0, "JOIN #c"), (1, "JOIN #c")], vec![(0, vec!["INVITE bob #c"]), (1, vec!["PART #c"])]));
    // a query that reports several counters describes one moment: LUSERS while a registration
    // completes, and while a user leaves
    v.push(mk("lusers-vs-registration", base_cfg(), 3, wit(), vec![1], vec![(1, "NICK x")], vec![(0, vec!["LUSERS"]), (1, vec!["USER u1 0 * :r"])]));
    v.push(mk("lusers-vs-quit", base_cfg(), 3, users3(), vec![], vec![(1, "MODE bob +i")], vec![(0, vec!["LUSERS"]), (1, vec!["QUIT"])]));
    v.push(mk("quit-vs-invite", base_cfg(), 3, users3(), vec![], vec![(0, "JOIN #c"), (1, "JOIN #c")], vec![(0, vec!["INVITE carol #c"]), (2, vec!["QUIT"])]));
    v
}

/// One named burst as a part of another property's plan.
pub fn burst_part(name: &str) -> PartResult {
    match bursts().into_iter().find(|b| b.name == name) {
        Some(b) => run_burst(b, None),
        None => {
            let mut r = PartResult::new(&format!("int:{}", name), "E-INT");
            r.machinery = Some("no such burst".into());
            r
        }
    }
}

fn run_burst(b: Burst, bound: Option<usize>) -> PartResult {
    let t0 = Instant::now();
    let name = format!("int:{}", b.name);
    let mut r = PartResult::new(&name, "E-INT");
    let out = explore(&b, bound, threads());
    // self-check of the reduction: where the unreduced search is small enough it
    // is run too and must produce exactly the same set of outcomes
    let mut full_info = json!(null);
    let total_cmds: usize = b.lines.iter().map(|x| x.1.len()).sum();
    if b.reduce && total_cmds <= 4 {
        let mut bf = b.clone();
        bf.reduce = false;
        bf.max_schedules = 300_000;
        let full = explore(&bf, None, threads());
        full_info = json!({"schedules": full.schedules, "complete": full.complete, "outcomes": full.outcomes.len()});
        if full.complete && out.complete && full.outcomes != out.outcomes && full.violations.is_empty() && out.violations.is_empty() {
            r.machinery = Some(format!("reduction self-check failed: reduced search saw {} outcomes, full search {}", out.outcomes.len(), full.outcomes.len()));
        }
        if !full.violations.is_empty() && out.violations.is_empty() {
            // the full search is authoritative
            for (kind, msg, sched, readable) in full.violations.iter().take(3) {
                r.violations.push(Violation {
                    scenario: format!("int:{}:full", b.name),
                    sig: kind.clone(),
                    detail: format!("burst {} (unreduced search): {}", b.name, msg),
                    history: vec![],
                    transcript: vec![json!({"burst": b.name, "schedule": sched, "steps": readable, "reduce": false}).to_string()],
                });
            }
        }
    }
    r.states = out.steps.max(1);
    r.transitions = out.steps.max(1);
    r.evaluations = out.schedules;
    r.distinct = out.outcomes.len() as u64;
    r.traces = out.schedules;
    r.exhaustive = out.complete && bound.is_none();
    r.cap = if !out.complete { Some(format!("schedule cap {} reached", b.max_schedules)) } else { bound.map(|bd| format!("preemption bound {} (all schedules with at most {} preemptions explored)", bd, bd)) };
    r.machinery = out.machinery.clone();
    for (kind, msg, sched, readable) in out.violations.iter().take(5) {
        r.violations.push(Violation {
            scenario: name.clone(),
            sig: kind.clone(),
            detail: format!("burst {}: {}", b.name, msg),
            history: vec![],
            transcript: vec![json!({"burst": b.name, "schedule": sched, "steps": readable}).to_string()],
        });
    }
    let racing = b.lines.len() >= 2;
    if racing && out.schedules < 2 && out.machinery.is_none() {
        r.machinery = Some(format!("vacuous: only {} schedule(s) for a racing burst", out.schedules));
    }
    r.samples = vec![json!({"burst": b.name, "lines": b.lines, "prelude": b.prelude})];
    r.extra = json!({
        "schedules": out.schedules,
        "steps_executed": out.steps,
        "max_steps_per_schedule": out.max_steps,
        "distinct_concurrent_outcomes": out.outcomes.len(),
        "sequential_outcomes": out.sequential,
        "preemption_bound": bound,
        "complete_within_bound": out.complete,
        "partial_order_reduction": b.reduce,
        "unreduced_self_check": full_info,
    });
    r.wall_s = t0.elapsed().as_secs_f64();
    r
}

/// The step decomposition the explorer relies on: a JOIN is several
/// scheduler-visible steps (read, lock+handle, flush, back at the gate).
fn self_test() -> PartResult {
    let t0 = Instant::now();
    let mut r = PartResult::new("int:self-test", "E-INT");
    let b = Burst {
        name: s("self-test"),
        cfg: base_cfg(),
        slots: 1,
        users: vec![(0, s("alice"), s("au"))],
        fresh: vec![],
        prelude: vec![],
        lines: vec![(0, vec![s("JOIN #b")])],
        max_schedules: 10,
        reduce: false,
    };
    let rr = run_schedule(&b, &[], true);
    r.evaluations = 1;
    r.states = rr.steps.max(1) as u64;
    r.transitions = rr.steps.max(1) as u64;
    r.distinct = 2;
    r.traces = 1;
    r.exhaustive = true;
    r.samples = vec![json!({"JOIN #b steps": rr.readable})];
    if rr.problem.is_some() || rr.steps < 3 || rr.steps > 12 {
        r.machinery = Some(format!("step decomposition changed: JOIN took {} steps ({:?}); the budget trick no longer yields one operation per poll", rr.steps, rr.problem));
    }
    // replay determinism: the same schedule twice gives the same outcome
    let b2 = bursts().into_iter().find(|x| x.name == "first-join-2").unwrap();
    let a = run_schedule(&b2, &[1, 0, 1, 0, 1], false);
    let c = run_schedule(&b2, &[1, 0, 1, 0, 1], false);
    if a.outcome != c.outcome || a.points.len() != c.points.len() {
        r.machinery = Some("replaying one schedule twice gave different observations".into());
    }
    r.wall_s = t0.elapsed().as_secs_f64();
    r
}

pub fn replay_fun(input: &Value) -> Vec<Finding> {
    let name = input["burst"].as_str().unwrap_or("");
    let sched: Vec<u16> = input["schedule"].as_array().map(|a| a.iter().filter_map(|x| x.as_u64().map(|v| v as u16)).collect()).unwrap_or_default();
    let mut b = match bursts().into_iter().find(|b| b.name == name) {
        Some(b) => b,
        None => return vec![],
    };
    if let Some(rf) = input["reduce"].as_bool() {
        b.reduce = rf;
    }
    let rr = run_schedule(&b, &sched, true);
    for l in &rr.readable {
        println!("  step {}", l);
    }
    let mut out = vec![];
    if let Some((k, m)) = rr.problem {
        out.push(Finding { sig: k, detail: m });
    } else if let Some(oc) = rr.outcome {
        match sequential_outcomes(&b) {
            Ok(seq) => {
                if !seq.contains(&oc) {
                    out.push(Finding { sig: "not-linearizable".into(), detail: format!("outcome {:?} equals none of the {} sequential outcomes", oc, seq.len()) });
                }
            }
            Err(e) => out.push(Finding { sig: "machinery".into(), detail: e }),
        }
    }
    out
}

pub fn plan(quick: bool) -> Plan {
    let mut parts: Vec<Part> = vec![Part::Custom("int:self-test".into(), Box::new(self_test))];
    for b in bursts() {
        let conns = b.lines.len();
        let total_cmds: usize = b.lines.iter().map(|x| x.1.len()).sum();
        let _ = (conns, total_cmds);
        // unbounded first; the schedule cap turns a too large burst into a
        // preemption-bounded one (reported as such)
        let bound: Option<usize> = None;
        let mut b2 = b.clone();
        b2.max_schedules = if quick { 400_000 } else { 6_000_000 };
        let name = format!("int:{}", b.name);
        parts.push(Part::Custom(name, Box::new(move || run_burst(b2, bound))));
    }
    Plan {
        property: "C18".into(),
        rule: "E-INT: for each of 25 bursts (simultaneous claims to one nick by 2 and 3 connections with and without a password, NICK races, first JOINs by 2 and 3, one remaining +l slot, PRIVMSG against PART/QUIT/NICK/KICK/MODE, INVITE vs JOIN, OPER vs others, KILL vs the victim's command, MODE +o vs KICK, sequence-numbered command pairs) every schedule of the real connection futures at the granularity of single tokio synchronisation operations (stateless DFS by re-execution; 2-connection/2-command bursts unbounded, others with an iterative preemption bound). Oracle: the outcome (final state; per connection the ordered replies; per (sender, receiver) the ordered relays; who is registered/closed) equals that of some sequential execution of the same commands by the same code; representation invariants; no deadlock; every connection answers PING afterwards".into(),
        assumptions: vec![
            "between two synchronisation operations a task touches only its own connection state, so single-threaded stepping covers multi-threaded executions up to Lipton reduction".into(),
            "forwarding a queued relay to the own socket commutes with everything and is done at quiescence".into(),
            "the <client> label of numerics is masked (it echoes a connection-local scratch value)".into(),
        ],
        parts,
    }
}
