//! C04 - channel membership is one consistent relation that follows the history.

use super::common::*;
use super::lim;
use crate::bfs::{Act, View};
use crate::canon::parse_server_line;
use crate::check::{Cat, Finding, Focus, StepObs};
use crate::run::{Part, Plan};
use crate::scn::{part, Cfg, ChatScn};
use crate::world::{Life, World};
use std::collections::{BTreeMap, BTreeSet};

/// The channels a scenario can touch: every channel name in its alphabet and configuration.
fn chans_of(scn: &ChatScn) -> Vec<String> {
    let mut out: BTreeSet<String> = BTreeSet::new();
    for c in &scn.cfg.channels {
        out.insert(c.name.clone());
    }
    for (_, t) in &scn.alphabet_for {
        for w in t.split(|c: char| c == ' ' || c == ',') {
            if (w.starts_with('#') || w.starts_with('&')) && w.len() > 1 {
                out.insert(w.to_string());
            }
        }
    }
    out.into_iter().collect()
}

fn scenario(name: &str, multi_prefix: bool) -> ChatScn {
    let mut s = ChatScn::new(
        name,
        Cfg {
            // #y is declared in the configuration: it exists while empty, its roster is a roster all the same
            label: "preconfigured-#y".into(),
            channels: vec![crate::scn::CfgChan { name: "#y".into(), ..Default::default() }],
            ..Default::default()
        },
        vec![
            part(0, "alice", "alicia", "au"),
            part(1, "bob", "bobby", "bu"),
            part(2, "carol", "caro", "cu"),
            part(3, "dave", "davy", "du"), // outsider: never joins
        ],
        0,
    );
    let member_alphabet: Vec<&'static str> = vec![
        "JOIN #x",
        "JOIN #y",
        "JOIN #x,#y",
        "PART #x",
        "PART #x,#y :bye now",
        "PART #x,#x",
        "KICK #x {peer}",
        "NICK {alt}",
        "QUIT",
    ];
    for slot in 0..3 {
        for t in &member_alphabet {
            s.alphabet_for.push((slot, t));
        }
    }
    s.ends = vec!["eof"];
    if multi_prefix {
        // the capability is negotiated after registration here (CAP REQ works at any time)
        for slot in 0..4 {
            s.prelude.push((slot, "CAP REQ :multi-prefix".into()));
            s.prelude.push((slot, "CAP END".into()));
        }
    }
    s.focus = Focus {
        cats: vec![Cat::Membership, Cat::ChanExistence, Cat::UserExistence],
        relays: true,
        relay_verbs: Some(vec!["JOIN", "PART", "KICK", "NICK"]),
        actor: true,
        actor_codes: Some(vec!["JOIN", "PART", "KICK", "NICK", "353", "366"]),
        closes: false,
    };
    s.invariants = vec!["membership-symmetry", "dangling-member", "rank-set"];
    s.orphan_check = true;
    s.state_oracle = Some(Box::new(views_agree));
    s.step_oracle = Some(Box::new(roster_reconstructs));
    s.goals = vec!["views-compared", "roster-join", "roster-part", "roster-kick", "roster-nick", "roster-vanish", "two-members"];
    // eof of the outsider is uninteresting; only participants 0..2 end sessions
    s.extra_actions = None;
    s
}

/// NAMES, WHO and WHOIS agree with each other and with the roster, from every
/// member's and every outsider's point of view.
fn views_agree(scn: &ChatScn, w: &mut World, v: &View, goals: &mut BTreeSet<String>) -> Vec<Finding> {
    let mut out = vec![];
    let viewers: Vec<usize> = scn.parts.iter().map(|p| p.slot).filter(|s| v.registered(*s)).collect();
    let all_nicks: Vec<String> = v.m.users.keys().cloned().collect();
    for &viewer in &viewers {
        // WHOIS of every user once per viewer
        let mut whois: BTreeMap<String, Option<BTreeMap<String, String>>> = BTreeMap::new();
        for n in &all_nicks {
            match whois_view(w, viewer, n) {
                Ok(x) => {
                    whois.insert(n.clone(), x);
                }
                Err(e) => return vec![finding("machinery", e.0)],
            }
        }
        // one WHOIS naming everybody says about each user what a WHOIS of that user alone says
        if all_nicks.len() >= 2 {
            match whois_multi_view(w, viewer, &all_nicks) {
                Ok(multi) => {
                    for n in &all_nicks {
                        let single = whois.get(n).cloned().flatten();
                        let together = multi.get(n).cloned();
                        if single != together {
                            out.push(finding("views:whois-list-vs-single", format!("viewer slot {}: WHOIS {} reports {:?} for {}, WHOIS {} alone reports {:?}", viewer, all_nicks.join(","), together, n, n, single)));
                        }
                    }
                    goals.insert("whois-list-compared".into());
                }
                Err(e) => return vec![finding("machinery", e.0)],
            }
        }
        for ch in chans_of(scn).iter().map(|c| c.as_str()) {
            let members: BTreeSet<String> = v.m.chans.get(ch).map(|c| c.members.keys().cloned().collect()).unwrap_or_default();
            // "to a client entitled to see them": an outsider of a secret channel is shown nothing
            let hidden = v.m.chans.get(ch).map_or(false, |c| c.fs) && !v.nick(viewer).map_or(false, |n| members.contains(n));
            // an invisible member is shown to those who share the channel with it; whether a client
            // that shares only another channel with it sees it here is left open (NAMES does not
            // show it, WHO and WHOIS do); a client sharing no channel with it does not see it
            let viewer_nick = v.nick(viewer).unwrap_or("").to_string();
            let viewer_in = members.contains(&viewer_nick);
            let mut may: BTreeSet<String> = BTreeSet::new();
            let mut roster: BTreeSet<String> = BTreeSet::new();
            if !hidden {
                for n in &members {
                    let inv = v.m.users.get(n).map_or(false, |u| u.i);
                    if !inv || viewer_in || *n == viewer_nick {
                        roster.insert(n.clone());
                    } else if v.m.share_channel(n, &viewer_nick) {
                        may.insert(n.clone());
                        goals.insert("invisible-elsewhere".into());
                    } else {
                        goals.insert("invisible-hidden".into());
                    }
                    if inv && viewer_in && *n != viewer_nick {
                        goals.insert("invisible-co-member".into());
                    }
                }
            }
            let agrees = |s: &BTreeSet<String>| roster.is_subset(s) && s.iter().all(|n| roster.contains(n) || may.contains(n));
            if hidden {
                goals.insert("secret-outsider".into());
            } else if v.m.chans.get(ch).map_or(false, |c| c.fs) {
                goals.insert("secret-member".into());
            }
            let names = match names_view(w, viewer, ch) {
                Ok(x) => x,
                Err(e) => return vec![finding("machinery", e.0)],
            };
            let who = match who_view(w, viewer, ch) {
                Ok(x) => x,
                Err(e) => return vec![finding("machinery", e.0)],
            };
            let via_whois: BTreeSet<String> = whois
                .iter()
                .filter(|(_, c)| c.as_ref().map_or(false, |c| c.contains_key(ch)))
                .map(|(n, _)| n.clone())
                .collect();
            let n_set = nickset(&names);
            let w_set: BTreeSet<String> = who.keys().cloned().collect();
            goals.insert("views-compared".into());
            if roster.len() >= 2 {
                goals.insert("two-members".into());
            }
            if !agrees(&n_set) {
                out.push(finding("views:names-vs-roster", format!("viewer slot {} NAMES {} = {:?} but members are {:?}", viewer, ch, n_set, roster)));
            }
            if !agrees(&w_set) {
                out.push(finding("views:who-vs-roster", format!("viewer slot {} WHO {} = {:?} but members are {:?}", viewer, ch, w_set, roster)));
            }
            if !agrees(&via_whois) {
                out.push(finding("views:whois-vs-roster", format!("viewer slot {} WHOIS lists {} for {:?} but members are {:?}", viewer, ch, via_whois, roster)));
            }
            // the rank prefixes shown by the three views agree too
            for (n, pfx) in &names {
                if let Some((_, flags)) = who.get(n) {
                    let wp: String = flags.chars().filter(|c| "~&@%+".contains(*c)).collect();
                    if &wp != pfx {
                        out.push(finding("views:prefix", format!("viewer slot {} {}: NAMES prefix {:?} vs WHO flags {:?} for {}", viewer, ch, pfx, flags, n)));
                    }
                }
                if let Some(Some(c)) = whois.get(n) {
                    if let Some(wp) = c.get(ch) {
                        if wp != pfx {
                            out.push(finding("views:prefix", format!("viewer slot {} {}: NAMES prefix {:?} vs WHOIS prefix {:?} for {}", viewer, ch, pfx, wp, n)));
                        }
                    }
                }
            }
        }
    }
    out
}

/// The NAMES reply received on joining plus the announcements received since
/// reconstruct the roster: inductive step, per client and channel.
fn roster_reconstructs(scn: &ChatScn, pre: &View, obs: &StepObs, post: &View, goals: &mut BTreeSet<String>) -> Vec<Finding> {
    let mut out = vec![];
    // users whose session ended in this step (the harness "tells" clients, as the
    // server does not announce departures by disconnect)
    let vanished: BTreeSet<String> = pre.m.users.keys().filter(|n| !post.m.users.contains_key(*n) && !renamed_to(pre, post, n).is_some()).cloned().collect();
    for p in &scn.parts {
        let s = p.slot;
        if post.life[s] != Life::Live || !post.registered(s) || !pre.registered(s) {
            continue;
        }
        let my_pre = pre.nick(s).unwrap().to_string();
        let msgs: Vec<_> = obs.lines[s].iter().filter_map(|l| parse_server_line(l)).collect();
        for ch in chans_of(scn).iter().map(|c| c.as_str()) {
            let was_member = pre.m.chans.get(ch).map_or(false, |c| c.members.contains_key(&my_pre));
            let mut me = my_pre.clone();
            let mut roster: Option<BTreeSet<String>> = if was_member { Some(pre.m.chans[ch].members.keys().cloned().collect()) } else { None };
            for m in &msgs {
                let src_nick = m.prefix.as_ref().and_then(|p| p.split('!').next()).unwrap_or("").to_string();
                match m.cmd.as_str() {
                    "JOIN" if m.params.first().map(|x| x.as_str()) == Some(ch) => {
                        if src_nick == me {
                            roster = Some(BTreeSet::new()); // filled by the 353 that follows
                        } else if let Some(r) = roster.as_mut() {
                            r.insert(src_nick.clone());
                            goals.insert("roster-join".into());
                        }
                    }
                    "353" if m.params.len() >= 4 && m.params[2] == ch => {
                        if let Some(r) = roster.as_mut() {
                            for n in m.params[3].split(' ').filter(|x| !x.is_empty()) {
                                r.insert(strip_prefix(n).to_string());
                            }
                        }
                    }
                    "PART" if m.params.first().map(|x| x.as_str()) == Some(ch) => {
                        if src_nick == me {
                            roster = None;
                        } else if let Some(r) = roster.as_mut() {
                            r.remove(&src_nick);
                            goals.insert("roster-part".into());
                        }
                    }
                    "KICK" if m.params.first().map(|x| x.as_str()) == Some(ch) && m.params.len() >= 2 => {
                        let victim = m.params[1].clone();
                        if victim == me {
                            roster = None;
                        } else if let Some(r) = roster.as_mut() {
                            r.remove(&victim);
                            goals.insert("roster-kick".into());
                        }
                    }
                    "NICK" if !m.params.is_empty() => {
                        let new = m.params[0].clone();
                        if let Some(r) = roster.as_mut() {
                            if r.remove(&src_nick) {
                                r.insert(new.clone());
                                goals.insert("roster-nick".into());
                            }
                        }
                        if src_nick == me {
                            me = new;
                        }
                    }
                    _ => {}
                }
            }
            if let Some(r) = roster.as_mut() {
                for vn in &vanished {
                    if r.remove(vn) {
                        goals.insert("roster-vanish".into());
                    }
                }
            }
            let my_post = post.nick(s).unwrap().to_string();
            let truth: Option<BTreeSet<String>> = post.m.chans.get(ch).filter(|c| c.members.contains_key(&my_post)).map(|c| c.members.keys().cloned().collect());
            if roster != truth {
                out.push(finding(
                    "roster",
                    format!(
                        "client slot {} ({}): roster of {} rebuilt from JOIN-time NAMES + announcements = {:?}, actual members = {:?}",
                        s, my_post, ch, roster, truth
                    ),
                ));
            }
        }
    }
    out
}

fn renamed_to<'a>(pre: &View, post: &'a View, old: &str) -> Option<&'a String> {
    // the user identity (user name is unique per participant) lives on under another nick
    let u = pre.m.users.get(old)?;
    post.m.users.iter().find(|(n, x)| x.name == u.name && !pre.m.users.contains_key(*n)).map(|(n, _)| n)
}

/// The churn scenario on a channel that starts secret: members keep seeing the full
/// roster through all three views under their current nicknames, outsiders nothing.
pub fn secret(full: bool) -> ChatScn {
    let mut s = scenario("c04-secret", false);
    s.prelude.push((0, "JOIN #x".into()));
    s.prelude.push((0, "MODE #x +s".into()));
    s.prelude.push((1, "JOIN #x".into()));
    if !full {
        // quick: one channel only
        s.alphabet_for.retain(|(_, t)| !t.contains("#y"));
    }
    s.goals = vec!["views-compared", "two-members", "secret-outsider", "secret-member"];
    s.step_oracle = None;
    s
}

/// "Joined successfully": with max_joins = 1 a refused JOIN (of an existing or a new
/// channel, alone or inside a comma list) puts nobody on any roster.
/// A KICK that removes the last members (the kicker included, once it gave up founder
/// status): the channel vanishes, and the removed members are told all the same.
pub fn last_kick() -> ChatScn {
    let mut s = scenario("c04-last-kick", false);
    s.alphabet_for.retain(|(slot, t)| *slot < 2 && (*t == "JOIN #x" || *t == "PART #x" || *t == "KICK #x {peer}"));
    for slot in 0..2 {
        for t in ["MODE #x -q {me}", "MODE #x +o {peer}", "KICK #x {me}", "KICK #x {peer},{me}", "KICK #x {me},{peer}"] {
            s.alphabet_for.push((slot, t));
        }
    }
    s.ends = vec![];
    s.step_oracle = Some(Box::new(|scn, pre, obs, post, goals| {
        if obs.act.render().contains("KICK") && pre.m.chans.contains_key("#x") && !post.m.chans.contains_key("#x") {
            goals.insert(if pre.m.chans["#x"].members.len() > 1 { "last-kick:two-removed".into() } else { "last-kick:self-removed".into() });
        }
        roster_reconstructs(scn, pre, obs, post, goals)
    }));
    s.goals = vec!["views-compared", "roster-kick", "last-kick:two-removed", "last-kick:self-removed"];
    s
}

/// Invisible members: whoever shares the channel sees them in all three views.
pub fn invisible(full: bool) -> ChatScn {
    let mut s = scenario("c04-invisible", false);
    s.alphabet_for.retain(|(_, t)| ["JOIN #x", "JOIN #y", "JOIN #x,#y", "PART #x"].contains(t) || (full && *t == "NICK {alt}"));
    for slot in 0..3 {
        s.alphabet_for.push((slot, "MODE {me} +i"));
        if full {
            s.alphabet_for.push((slot, "MODE {me} -i"));
        }
    }
    s.ends = vec![];
    s.goals = vec!["views-compared", "two-members", "invisible-co-member", "invisible-hidden", "invisible-elsewhere"];
    s
}

/// A local channel (`&` prefix) is a channel like any other in all three views.
pub fn local_channel(full: bool) -> ChatScn {
    let mut s = scenario("c04-local-channel", false);
    s.alphabet_for.clear();
    for slot in 0..3 {
        for t in ["JOIN &z", "PART &z", "JOIN #x,&z", "KICK &z {peer}", "NICK {alt}"] {
            s.alphabet_for.push((slot, t));
        }
        if full {
            s.alphabet_for.push((slot, "QUIT"));
            s.alphabet_for.push((slot, "MODE &z +a {peer}"));
        }
    }
    s.ends = vec![];
    s.goals = vec!["views-compared", "two-members", "roster-join", "roster-kick"];
    s
}

pub fn quota() -> ChatScn {
    let mut s = scenario("c04-quota", false);
    s.cfg.max_joins = Some(1);
    s.cfg.label = "preconfigured-#y+max_joins1".into();
    s.alphabet_for.retain(|(slot, t)| *slot < 2 && !t.starts_with("KICK") && !t.starts_with("NICK"));
    for slot in 0..2 {
        s.alphabet_for.push((slot, "JOIN #z"));
        s.alphabet_for.push((slot, "JOIN #x,#z"));
    }
    s.goals = vec!["views-compared"];
    s.step_oracle = None;
    s
}

/// Rosters and the three views after a contended registration (see ghost.rs).
pub fn ghost(full: bool) -> ChatScn {
    let mut s = super::ghost::ghost_scn("c04-ghost", &[Cat::Membership, Cat::ChanExistence, Cat::UserExistence, Cat::UserIdentity], full);
    s.state_oracle = Some(Box::new(|scn, w, v, g| {
        let mut out = super::reg::ownership_bijection(v);
        out.extend(views_agree(scn, w, v, g));
        out
    }));
    s.goals.push("views-compared");
    s
}

/// "Every membership change ... is announced to all members": also when many announcements
/// for one member are waiting at once. One case = k channels shared by a watcher and a
/// walker; the walker joins / parts them in one command (and as k commands in one segment),
/// a kicker removes k members in one KICK. Every announcement arrives, once.
pub fn many_case(k: usize, mode: &str) -> Vec<Finding> {
    let mut out = vec![];
    let slots = if mode == "kick" { k + 2 } else { 2 };
    let mut w = World::new(Cfg::default().main_config(), slots);
    macro_rules! m {
        ($e:expr) => {
            match $e {
                Ok(v) => v,
                Err(e) => return vec![finding("machinery", e.0)],
            }
        };
    }
    m!(w.register(0, "watcher", "wu"));
    m!(w.register(1, "walker", "ku"));
    let chans: Vec<String> = (0..k).map(|i| format!("#r{}", i)).collect();
    let count = |ls: &[String], verb: &str, who: &str| ls.iter().filter_map(|l| parse_server_line(l)).filter(|m| m.cmd == verb && m.prefix.as_deref().map_or(false, |p| p.starts_with(&format!("{}!", who)))).count();
    if mode == "kick" {
        m!(w.send(0, "JOIN #big"));
        m!(w.send(1, "JOIN #big"));
        let mut victims = vec![];
        for i in 0..k {
            let n = format!("v{}", i);
            m!(w.register(2 + i, &n, "vu"));
            m!(w.send(2 + i, "JOIN #big"));
            victims.push(n);
        }
        w.take_all();
        m!(w.send(0, &format!("KICK #big {}", victims.join(","))));
        let mine = w.take_lines(0);
        let theirs = w.take_lines(1);
        if count(&mine, "KICK", "watcher") != k || count(&theirs, "KICK", "watcher") != k {
            out.push(finding("many:kick", format!("KICK of {} members: the kicker saw {} KICK lines, a remaining member {}", k, count(&mine, "KICK", "watcher"), count(&theirs, "KICK", "watcher"))));
        }
        return out;
    }
    m!(w.send(0, &format!("JOIN {}", chans.join(","))));
    w.take_all();
    if mode == "list" {
        m!(w.send(1, &format!("JOIN {}", chans.join(","))));
    } else {
        let seg: String = chans.iter().map(|c| format!("JOIN {}\r\n", c)).collect();
        w.write_raw(1, seg.as_bytes());
        m!(w.pump_socket(1));
        m!(w.settle());
    }
    let seen = w.take_lines(0);
    let own = w.take_lines(1);
    if count(&seen, "JOIN", "walker") != k || count(&own, "JOIN", "walker") != k {
        out.push(finding("many:join", format!("{} joins ({}): the member of all channels saw {} JOIN lines, the joiner {} echoes", k, mode, count(&seen, "JOIN", "walker"), count(&own, "JOIN", "walker"))));
    }
    if mode == "list" {
        m!(w.send(1, &format!("PART {}", chans.join(","))));
    } else {
        let seg: String = chans.iter().map(|c| format!("PART {}\r\n", c)).collect();
        w.write_raw(1, seg.as_bytes());
        m!(w.pump_socket(1));
        m!(w.settle());
    }
    let seen = w.take_lines(0);
    let own = w.take_lines(1);
    if count(&seen, "PART", "walker") != k || count(&own, "PART", "walker") != k {
        out.push(finding("many:part", format!("{} parts ({}): the remaining member saw {} PART lines, the parting user {} echoes", k, mode, count(&seen, "PART", "walker"), count(&own, "PART", "walker"))));
    }
    for (i, c) in w.conns.iter().enumerate() {
        if let Life::Panicked(msg) = &c.life {
            out.push(finding("many:panic", format!("connection {} aborted: {}", i, msg)));
        }
    }
    out
}

/// Names at the advertised limits (CHANNELLEN 1000, NICKLEN 200): a reply that lists them is
/// split, never cut - the three views show whole names.
pub fn long_names_case(chan_len: usize, nchans: usize, nick_len: usize) -> Vec<Finding> {
    let mut out = vec![];
    let mut w = World::new(Cfg::default().main_config(), 2);
    macro_rules! m {
        ($e:expr) => {
            match $e {
                Ok(v) => v,
                Err(e) => return vec![finding("machinery", e.0)],
            }
        };
    }
    let nick: String = "n".repeat(nick_len.max(1));
    m!(w.register(0, &nick, "nu"));
    m!(w.register(1, "bob", "bu"));
    let chans: Vec<String> = (0..nchans).map(|i| format!("#{}{}", (b'a' + i as u8) as char, "x".repeat(chan_len.saturating_sub(2)))).collect();
    for c in &chans {
        m!(w.send(0, &format!("JOIN {}", c)));
    }
    w.take_all();
    let want: BTreeSet<String> = chans.iter().cloned().collect();
    // WHOIS: every channel, whole
    match whois_view(&mut w, 1, &nick) {
        Ok(Some(cs)) => {
            let got: BTreeSet<String> = cs.keys().cloned().collect();
            if got != want {
                out.push(finding("long:whois", format!("WHOIS lists channels of lengths {:?}, the user is on {} channels of length {}", got.iter().map(|c| c.len()).collect::<Vec<_>>(), nchans, chan_len)));
            }
        }
        Ok(None) => out.push(finding("long:whois", "WHOIS does not report the user".into())),
        Err(e) => return vec![finding("machinery", e.0)],
    }
    for c in &chans {
        let names = m!(names_view(&mut w, 1, c));
        let who = m!(who_view(&mut w, 1, c));
        if !names.contains_key(&nick) || !who.contains_key(&nick) {
            out.push(finding("long:names-who", format!("channel of length {}: NAMES shows nick lengths {:?}, WHO {:?}; the member's nick has length {}", c.len(), names.keys().map(|k| k.len()).collect::<Vec<_>>(), who.keys().map(|k| k.len()).collect::<Vec<_>>(), nick.len())));
        }
    }
    // the announcement of a JOIN to a member carries the whole names too
    w.take_all();
    m!(w.send(1, &format!("JOIN {}", chans[0])));
    let seen = w.take_lines(0);
    if !seen.iter().filter_map(|l| parse_server_line(l)).any(|mm| mm.cmd == "JOIN" && mm.params.first() == Some(&chans[0])) {
        out.push(finding("long:join", format!("the member of a channel of length {} did not see the newcomer's JOIN with the whole name: {:?}", chans[0].len(), seen.iter().map(|l| l.len()).collect::<Vec<_>>())));
    }
    for (i, c) in w.conns.iter().enumerate() {
        if let Life::Panicked(msg) = &c.life {
            out.push(finding("long:panic", format!("connection {} aborted: {}", i, msg)));
        }
    }
    out
}

fn long_names_part(quick: bool) -> crate::run::PartResult {
    let t0 = std::time::Instant::now();
    let name = "fun:c04-long-names";
    let mut r = crate::run::PartResult::new(name, "E-FUN");
    let shapes: Vec<(usize, usize, usize)> = if quick { vec![(996, 2, 5), (996, 3, 200), (640, 4, 120), (300, 8, 200)] } else { vec![(100, 25, 9), (300, 8, 200), (500, 5, 200), (640, 4, 120), (996, 2, 5), (996, 3, 200), (1000, 1, 200), (1000, 4, 200)] };
    for (cl, nc, nl) in shapes {
        r.evaluations += 1;
        for f in long_names_case(cl, nc, nl) {
            r.violations.push(crate::bfs::Violation { scenario: name.into(), sig: f.sig, detail: f.detail, history: vec![], transcript: vec![serde_json::json!({"chan_len": cl, "chans": nc, "nick_len": nl}).to_string()] });
        }
    }
    r.states = r.evaluations;
    r.transitions = r.evaluations * 4;
    r.distinct = r.evaluations;
    r.traces = r.evaluations;
    r.exhaustive = true;
    r.samples = vec![serde_json::json!({"chan_len": 996, "chans": 3, "nick_len": 200})];
    r.wall_s = t0.elapsed().as_secs_f64();
    r
}

fn many_part(quick: bool) -> crate::run::PartResult {
    let t0 = std::time::Instant::now();
    let name = "fun:c04-many-announcements";
    let mut r = crate::run::PartResult::new(name, "E-FUN");
    let ks: Vec<usize> = if quick { vec![2, 9, 17, 33] } else { (1..=40).collect() };
    for k in ks {
        for mode in ["list", "segment", "kick"] {
            if mode == "kick" && k > 20 {
                continue;
            }
            r.evaluations += 1;
            for f in many_case(k, mode) {
                r.violations.push(crate::bfs::Violation { scenario: name.into(), sig: f.sig, detail: f.detail, history: vec![], transcript: vec![serde_json::json!({"k": k, "mode": mode}).to_string()] });
            }
        }
    }
    r.states = r.evaluations;
    r.transitions = r.evaluations * 3;
    r.distinct = r.evaluations;
    r.traces = r.evaluations;
    r.exhaustive = true;
    r.samples = vec![serde_json::json!({"k": 9, "mode": "list", "meaning": "watcher is on #r0..#r8, walker JOINs and PARTs them in one command"})];
    r.wall_s = t0.elapsed().as_secs_f64();
    r
}

/// "For any number of users": a roster larger than one NAMES line (the server lists 20 names
/// per 353). n members, optionally one of them invisible; a member and an outsider ask
/// NAMES and WHO: the member sees everybody, the outsider everybody who is not invisible -
/// in both views, whatever n is relative to the chunk size.
pub fn roster_case(n: usize, invisible: Option<usize>) -> Vec<Finding> {
    let mut out = vec![];
    let mut w = World::new(Cfg::default().main_config(), n + 1);
    macro_rules! m {
        ($e:expr) => {
            match $e {
                Ok(v) => v,
                Err(e) => return vec![finding("machinery", e.0)],
            }
        };
    }
    let nicks: Vec<String> = (0..n).map(|i| format!("m{}", i)).collect();
    for (i, nk) in nicks.iter().enumerate() {
        m!(w.register(i, nk, "mu"));
        m!(w.send(i, "JOIN #crowd"));
    }
    m!(w.register(n, "watcher", "wu"));
    if let Some(k) = invisible {
        m!(w.send(k, &format!("MODE {} +i", nicks[k])));
    }
    w.take_all();
    let all: BTreeSet<String> = nicks.iter().cloned().collect();
    let visible: BTreeSet<String> = nicks.iter().enumerate().filter(|(i, _)| Some(*i) != invisible).map(|(_, x)| x.clone()).collect();
    for (who, slot, want) in [("a member", n - 1, &all), ("an outsider", n, &visible)] {
        let names: BTreeSet<String> = m!(names_view(&mut w, slot, "#crowd")).keys().cloned().collect();
        let who_l: BTreeSet<String> = m!(who_view(&mut w, slot, "#crowd")).keys().cloned().collect();
        if &names != want {
            out.push(finding("roster:names", format!("{} members{}: NAMES #crowd asked by {} lists {} names; missing {:?}, surplus {:?}", n, if invisible.is_some() { " (one +i)" } else { "" }, who, names.len(), want.difference(&names).take(4).collect::<Vec<_>>(), names.difference(want).take(4).collect::<Vec<_>>())));
        }
        if &who_l != want {
            out.push(finding("roster:who", format!("{} members{}: WHO #crowd asked by {} lists {} users; missing {:?}, surplus {:?}", n, if invisible.is_some() { " (one +i)" } else { "" }, who, who_l.len(), want.difference(&who_l).take(4).collect::<Vec<_>>(), who_l.difference(want).take(4).collect::<Vec<_>>())));
        }
    }
    for (i, c) in w.conns.iter().enumerate() {
        if let Life::Panicked(msg) = &c.life {
            out.push(finding("roster:panic", format!("connection {} aborted: {}", i, msg)));
        }
    }
    out
}

fn roster_part(quick: bool) -> crate::run::PartResult {
    let t0 = std::time::Instant::now();
    let name = "fun:c04-large-roster";
    let mut r = crate::run::PartResult::new(name, "E-FUN");
    let sizes: Vec<usize> = if quick { vec![2, 19, 20, 21, 40, 41] } else { (1..=62).collect() };
    for n in sizes {
        let mut invs = vec![None, Some(0), Some(n - 1)];
        if n > 8 {
            invs.push(Some(7));
        }
        invs.dedup();
        for inv in invs {
            r.evaluations += 1;
            for f in roster_case(n, inv) {
                r.violations.push(crate::bfs::Violation { scenario: name.into(), sig: f.sig, detail: f.detail, history: vec![], transcript: vec![serde_json::json!({"n": n, "invisible": inv}).to_string()] });
            }
        }
    }
    r.violations.truncate(40);
    r.states = r.evaluations;
    r.transitions = r.evaluations * 4;
    r.distinct = r.evaluations;
    r.traces = r.evaluations;
    r.exhaustive = true;
    r.samples = vec![serde_json::json!({"n": 20, "invisible": 7, "meaning": "20 members of #crowd, m7 is +i; NAMES and WHO asked by m19 and by an outsider"})];
    r.wall_s = t0.elapsed().as_secs_f64();
    r
}

pub fn replay_fun(scenario: &str, input: &serde_json::Value) -> Vec<Finding> {
    if scenario == "fun:c04-large-roster" {
        return roster_case(input["n"].as_u64().unwrap_or(20) as usize, input["invisible"].as_u64().map(|x| x as usize));
    }
    if scenario == "fun:c04-long-names" {
        return long_names_case(input["chan_len"].as_u64().unwrap_or(996) as usize, input["chans"].as_u64().unwrap_or(3) as usize, input["nick_len"].as_u64().unwrap_or(200) as usize);
    }
    if scenario == "fun:c04-many-announcements" {
        return many_case(input["k"].as_u64().unwrap_or(9) as usize, input["mode"].as_str().unwrap_or("list"));
    }
    vec![]
}

pub fn plan(quick: bool) -> Plan {
    let mut parts = vec![];
    parts.push(Part::Custom("fun:c04-many-announcements".into(), Box::new(move || many_part(quick))));
    parts.push(Part::Custom("fun:c04-long-names".into(), Box::new(move || long_names_part(quick))));
    parts.push(Part::Custom("fun:c04-large-roster".into(), Box::new(move || roster_part(quick))));
    parts.push(Part::Bfs(Box::new(ghost(!quick)), lim(if quick { 6 } else { 8 }, 2_000_000, if quick { 20.0 } else { 600.0 })));
    parts.push(Part::Bfs(Box::new(secret(!quick)), lim(if quick { 4 } else { 6 }, 2_000_000, if quick { 20.0 } else { 600.0 })));
    parts.push(Part::Bfs(Box::new(quota()), lim(if quick { 4 } else { 6 }, 2_000_000, if quick { 20.0 } else { 600.0 })));
    parts.push(Part::Bfs(Box::new(local_channel(!quick)), lim(if quick { 4 } else { 6 }, 2_000_000, if quick { 20.0 } else { 600.0 })));
    parts.push(Part::Bfs(Box::new(invisible(!quick)), lim(if quick { 4 } else { 6 }, 2_000_000, if quick { 20.0 } else { 600.0 })));
    parts.push(Part::Bfs(Box::new(last_kick()), lim(if quick { 5 } else { 7 }, 2_000_000, if quick { 20.0 } else { 600.0 })));
    if quick {
        parts.push(Part::Bfs(Box::new(scenario("c04-churn", false)), lim(6, 3_000_000, 40.0)));
    } else {
        parts.push(Part::Bfs(Box::new(scenario("c04-churn", false)), lim(8, 3_000_000, 600.0)));
        parts.push(Part::Bfs(Box::new(scenario("c04-churn-multiprefix", true)), lim(6, 1_000_000, 300.0)));
        // E-BIND: every history of depth <= 2 of this scenario also over real TCP
        // against the production binary built without the verification cfg
        parts.push(Part::Custom(
            "bind:c04-churn".into(),
            Box::new(|| {
                let scn = scenario("c04-churn", false);
                let mut pre = vec![];
                for p in &scn.parts {
                    pre.push(Act::Connect(p.slot));
                    pre.push(Act::Send(p.slot, format!("NICK {}", p.nick)));
                    pre.push(Act::Send(p.slot, format!("USER {} 8 * :Real {}", p.user, p.user)));
                }
                let (bin, dir) = crate::props::bind_paths();
                let cfg = scn.cfg.clone();
                crate::bind::run_bind("bind:c04-churn", &scn, &cfg, &pre, 2, 2000, &bin, &dir)
            }),
        ));
    }
    Plan {
        property: "C04".into(),
        rule: "explicit-state BFS over the real server: 3 users + 1 outsider, channels #x/#y, alphabet JOIN/PART/KICK/NICK/QUIT/EOF; states deduplicated on the canonical real state; in every state NAMES/WHO/WHOIS from all 4 viewpoints are compared with each other and with the roster; on every transition the membership announcements are compared with the Spec and each client's roster is rebuilt from JOIN-time NAMES + announcements".into(),
        assumptions: vec![
            "departures by disconnect are told to clients by the harness (the server does not announce them)".into(),
            "wall-clock fields masked".into(),
        ],
        parts,
    }
}
