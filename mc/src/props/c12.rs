//! C12 - secret channels and invisible users stay hidden from outsiders.
//!
//! Two-world (non-interference) check: in every reachable state W the history
//! is replayed with the hidden part deleted (W-), and the observer's queries
//! must be answered identically in both worlds.

use super::common::*;
use super::lim;
use crate::bfs::{apply, Act, Scenario, View};
use crate::canon::canon_lines;
use crate::check::{Finding, Focus, StepObs};
use crate::run::{Part, Plan};
use crate::scn::{part, Cfg, ChatScn};
use crate::world::{Life, World};
use std::collections::BTreeSet;

#[derive(Clone, Copy, PartialEq, Eq, Debug)]
pub enum Hidden {
    SecretChannel,
    InvisibleUser,
}

pub struct TwoWorld {
    pub kind: Hidden,
    pub observer_joins: bool,
    pub full: bool,
    /// the secret channel is declared (+s, with a topic) in the configuration: it exists
    /// while empty; the world without the hidden part has no such declaration
    pub pre: bool,
}

const OBS: usize = 2;

impl TwoWorld {
    fn inner(&self) -> ChatScn {
        let mut s = ChatScn::new("x", Cfg::default(), // the observer registered with the same USER name as the hidden party: a name is not an identity
        vec![part(0, "m1", "m1b", "uu"), part(1, "m2", "m2b", "u2"), part(2, "obs", "obsb", "uu")], 0);
        match self.kind {
            Hidden::SecretChannel => {
                for slot in 0..2 {
                    for t in ["JOIN #s", "MODE #s +s", "TOPIC #s :hidden topic", "JOIN #p", "PART #s"] {
                        s.alphabet_for.push((slot, t));
                    }
                    if self.full {
                        for t in ["MODE #s +i", "MODE #s +k kk", "MODE #s +o {peer}", "AWAY :a", "MODE {me} +i"] {
                            s.alphabet_for.push((slot, t));
                        }
                    }
                }
            }
            Hidden::InvisibleUser => {
                // m2 owns the channels; m1 (the hidden user) only joins existing ones
                s.prelude = vec![(1, "JOIN #p".into()), (1, "JOIN #q".into())];
                for t in ["MODE {me} +i", "JOIN #p", "JOIN #q", "PART #p", "AWAY :a"] {
                    s.alphabet_for.push((0, t));
                }
                // the hidden user logs in to a predefined account (+r: WHOIS would say so)
                s.cfg.users = vec![("uu".into(), "m1".into(), None, None)];
                // the hidden user becomes an operator and resigns: +i is its own to remove, nothing else removes it
                s.cfg.opers = vec![crate::spec::SpecOper { name: "op".into(), password: "oppw".into(), mask: None }];
                for t in ["OPER op oppw", "MODE {me} -O"] {
                    s.alphabet_for.push((0, t));
                }
                if self.full {
                    for t in ["NICK {alt}", "MODE {me} +w", "JOIN #p,#q"] {
                        s.alphabet_for.push((0, t));
                    }
                }
                for t in ["MODE #p +v {peer}", "TOPIC #p :t"] {
                    s.alphabet_for.push((1, t));
                }
            }
        }
        if self.pre {
            s.cfg.channels = vec![crate::scn::CfgChan { name: "#s".into(), topic: Some("configured and hidden".into()), flags: "s".into(), voices: vec!["m2".into()], ..Default::default() }];
            s.cfg.label = "preconfigured-secret-#s".into();
        }
        if self.observer_joins {
            s.alphabet_for.push((OBS, "JOIN #p"));
            // a former member is an outsider again, however it left
            s.alphabet_for.push((OBS, "PART #p"));
            s.alphabet_for.push((1, "KICK #p obs"));
            if self.kind == Hidden::InvisibleUser {
                // an observer that sits on a channel of its own shares nothing with the hidden
                // user, however many channels either of them is on
                s.alphabet_for.push((OBS, "JOIN #r"));
            }
            if self.kind == Hidden::SecretChannel {
                s.alphabet_for.push((OBS, "JOIN #s"));
                s.alphabet_for.push((0, "KICK #s obs"));
                if self.full {
                    s.alphabet_for.push((OBS, "PART #s"));
                }
            }
        }
        s
    }

    fn hidden_line(&self, a: &Act) -> bool {
        match self.kind {
            Hidden::SecretChannel => match a {
                Act::Send(_, l) => l.contains("#s"),
                _ => false,
            },
            Hidden::InvisibleUser => a.actor() == Some(0),
        }
    }

    /// The world with the hidden part deleted.
    fn shadow(&self, hist: &[Act]) -> Result<World, crate::world::MachineryError> {
        let inner = self.inner();
        let mut cfg = inner.cfg.clone();
        if self.pre {
            cfg.channels.clear();
        }
        let mut w = World::new(cfg.main_config(), 3);
        for p in &inner.parts {
            if self.kind == Hidden::InvisibleUser && p.slot == 0 {
                continue;
            }
            w.register(p.slot, p.nick, p.user)?;
        }
        for (s, l) in &inner.prelude {
            w.send(*s, l)?;
        }
        for a in hist {
            if self.hidden_line(a) {
                continue;
            }
            apply(&mut w, a)?;
        }
        w.take_all();
        Ok(w)
    }

    fn battery(&self, v: &View) -> Vec<String> {
        let m1 = v.nick(0).unwrap_or("m1").to_string();
        match self.kind {
            Hidden::SecretChannel => {
                let mut b: Vec<String> = ["LIST", "LIST #s", "LIST #s,#p", "LIST #p,#s", "LIST #p,#s,#nochan", "NAMES", "NAMES #s", "NAMES #s,#p", "NAMES #p,#s", "WHO #s", "WHO m1", "WHO *", "WHO m*", "WHO *1", "WHOIS m1", "WHOIS m1,m2", "WHOIS m*"].iter().map(|s| s.to_string()).collect();
                if self.full {
                    b.extend(["NAMES #nochan,#p,#s", "LIST #nochan,#s,#p", "WHO #p", "WHOIS m2", "WHO *!*@*", "WHO ?1"].iter().map(|s| s.to_string()));
                }
                b
            }
            Hidden::InvisibleUser => {
                let mut b = vec![format!("WHO {}", m1), "WHO *".to_string(), "WHO m*".to_string(), "WHO *1*".to_string(), "NAMES".to_string(), "NAMES #p".to_string(), "NAMES #q".to_string(), "NAMES #p,#q".to_string(), format!("WHOIS {}", m1), format!("WHOIS {},m2", m1), "WHOIS m*".to_string(), "WHO #p".to_string(), "WHO #q".to_string()];
                if self.full {
                    b.extend(["WHO *!~uu@*".to_string(), "WHO Real*".to_string(), "WHOIS *1*".to_string(), "WHO ?1".to_string()]);
                }
                b
            }
        }
    }
}

impl Scenario for TwoWorld {
    fn name(&self) -> String {
        format!("c12-{:?}{}{}", self.kind, if self.pre { "-preconfigured" } else { "" }, if self.observer_joins { "-observer-in-p" } else { "" })
    }
    fn slots(&self) -> usize {
        3
    }
    fn config(&self) -> crate::config::MainConfig {
        self.inner().config()
    }
    fn spec_cfg(&self) -> crate::spec::SpecCfg {
        self.inner().spec_cfg()
    }
    fn prelude(&self, w: &mut World) -> Result<(), crate::world::MachineryError> {
        self.inner().prelude(w)
    }
    fn actions(&self, v: &View) -> Vec<Act> {
        self.inner().actions(v)
    }
    fn focus(&self) -> Focus {
        Focus::state_only(&[])
    }
    fn spec_applies(&self, _a: &Act) -> bool {
        false
    }
    fn goals(&self) -> Vec<&'static str> {
        vec!["compared", "hidden-exists"]
    }
    fn state_oracle(&self, w: &mut World, v: &View, goals: &mut BTreeSet<String>) -> Vec<Finding> {
        let mut out = vec![];
        if !v.registered(OBS) {
            return out;
        }
        let obs_nick = v.nick(OBS).unwrap().to_string();
        // does the hiding condition of the statement hold in this state?
        match self.kind {
            Hidden::SecretChannel => {
                // declared secret in the configuration and never made public by anybody
                if self.pre && !v.hist.iter().any(|a| matches!(a, Act::Send(_, l) if l.starts_with("MODE #s") && l.contains("-s"))) {
                    if let Some(c) = v.m.chans.get("#s") {
                        if !c.fs {
                            out.push(finding("secret-lost", format!("#s is declared secret in the configuration and nobody removed +s, yet the server no longer holds it as secret (history {:?})", v.hist.iter().map(|a| a.render()).collect::<Vec<_>>())));
                            return out;
                        }
                    }
                }
                let hidden = v.m.chans.get("#s").map_or(false, |c| c.fs && !c.members.contains_key(&obs_nick));
                if !hidden {
                    return out;
                }
            }
            Hidden::InvisibleUser => {
                let m1 = match v.nick(0) {
                    Some(n) => n.to_string(),
                    None => return out,
                };
                // +i is set by its holder only and (in this alphabet) never removed
                let asked_i = v.hist.iter().any(|a| matches!(a, Act::Send(0, l) if l.starts_with("MODE ") && l.ends_with(" +i")));
                let is_i = v.m.users.get(&m1).map_or(false, |u| u.i);
                if asked_i && v.m.users.contains_key(&m1) && !is_i {
                    out.push(finding("invisible-lost", format!("{} set +i and never removed it, yet the server no longer holds it as invisible (history {:?})", m1, v.hist.iter().map(|a| a.render()).collect::<Vec<_>>())));
                    return out;
                }
                let hidden = is_i && !v.m.share_channel(&m1, &obs_nick);
                if !hidden {
                    return out;
                }
            }
        }
        goals.insert("hidden-exists".into());
        let mut shadow = match self.shadow(&v.hist) {
            Ok(s) => s,
            Err(e) => return vec![finding("machinery", format!("shadow world: {}", e.0))],
        };
        let server = "irc.irc";
        for q in self.battery(v) {
            w.take_lines(OBS);
            if let Err(e) = w.send(OBS, &q) {
                return vec![finding("machinery", e.0)];
            }
            let a = w.take_lines(OBS);
            shadow.take_lines(OBS);
            if let Err(e) = shadow.send(OBS, &q) {
                return vec![finding("machinery", format!("shadow: {}", e.0))];
            }
            let b = shadow.take_lines(OBS);
            goals.insert("compared".into());
            let ca = canon_lines(server, &a);
            let cb = canon_lines(server, &b);
            if ca != cb {
                let verb = q.split(' ').next().unwrap_or("");
                out.push(finding(
                    &format!("leak:{:?}:{}", self.kind, verb),
                    format!("observer's {:?} is answered differently when the hidden part exists: with = {:?} ; without = {:?}", q, a, b),
                ));
            }
            for (i, c) in w.conns.iter().enumerate() {
                if let Life::Panicked(m) = &c.life {
                    out.push(finding("panic", format!("connection {} aborted on {:?}: {}", i, q, m)));
                    return out;
                }
            }
        }
        // "cannot speak into it"
        if self.kind == Hidden::SecretChannel {
            for verb in ["PRIVMSG", "NOTICE", "PRIVMSG @", "NOTICE +", "PRIVMSG ~@", "PRIVMSG %"] {
                w.take_all();
                let (verb, pfx) = match verb.split_once(' ') {
                    Some((v, p)) => (v, p),
                    None => (verb, ""),
                };
                if let Err(e) = w.send(OBS, &format!("{} {}#s :psst", verb, pfx)) {
                    return vec![finding("machinery", e.0)];
                }
                for s in 0..2 {
                    let ls = w.take_lines(s);
                    if ls.iter().any(|l| l.contains("psst")) {
                        out.push(finding("speak-into-secret", format!("outsider's {} #s reached member slot {}: {:?}", verb, s, ls)));
                    }
                }
            }
            w.take_all();
        }
        out
    }
}

/// A refused / unfinished registration next to a secret channel: such a connection is answered
/// 451 whatever it asks and owns nothing (Spec + ownership oracle of ghost.rs).
fn ghost(full: bool) -> crate::scn::ChatScn {
    let mut s = super::ghost::ghost_scn("c12-ghost", crate::check::ALL_CATS, full);
    s.prelude.push((0, "MODE #x +s".into()));
    s.extra_actions = Some(Box::new(|_scn, v| {
        let mut acts = vec![];
        for slot in [1usize, 2] {
            if v.life[slot] == crate::world::Life::Live && v.nick(slot).is_none() && v.infos[slot].as_ref().map_or(false, |i| i.nick.is_some()) {
                for l in ["NAMES #x", "WHO #x", "LIST", "WHOIS alice", "PRIVMSG #x :psst"] {
                    acts.push(Act::Send(slot, l.to_string()));
                }
            }
        }
        acts
    }));
    s.focus = crate::check::Focus { cats: crate::check::ALL_CATS.to_vec(), relays: true, relay_verbs: None, actor: true, actor_codes: Some(vec!["451", "353", "366", "352", "315", "322", "323", "311", "319", "318", "404"]), closes: false };
    s
}

pub fn plan(quick: bool) -> Plan {
    let d = if quick { 7 } else { 8 };
    let t = if quick { 15.0 } else { 600.0 };
    let mut parts = vec![];
    for kind in [Hidden::SecretChannel, Hidden::InvisibleUser] {
        for oj in [false, true] {
            parts.push(Part::Bfs(Box::new(TwoWorld { kind, observer_joins: oj, full: !quick, pre: false }), lim(d, 2_000_000, t)));
        }
    }
    parts.push(Part::Bfs(Box::new(TwoWorld { kind: Hidden::SecretChannel, observer_joins: false, full: !quick, pre: true }), lim(if quick { 5 } else { 7 }, 2_000_000, t)));
    // "every kind of outsider": a connection whose registration was refused or never finished is an
    // outsider of everything - the contended-registration part (ghost.rs) with a secret channel
    parts.push(Part::Bfs(Box::new(ghost(!quick)), lim(if quick { 6 } else { 7 }, 2_000_000, if quick { 20.0 } else { 600.0 })));
    Plan {
        property: "C12".into(),
        rule: "two-world E-SEQ BFS: members m1/m2 build a secret channel (JOIN #s, MODE +s, TOPIC, JOIN #p, PART; thorough adds +i/+k/+o/AWAY/+i user mode) or m1 becomes invisible and joins channels owned by m2; the observer is nowhere or in #p. In every reachable state where the hiding condition holds the history is replayed in a second real server world with the hidden part deleted (every command naming #s / the invisible user's whole connection) and the observer's LIST/NAMES/WHO/WHOIS battery (explicit names, comma lists, wildcard masks, no argument) must be answered identically (canonical form, client label and time fields masked) in both; PRIVMSG/NOTICE into the secret channel reach nobody".into(),
        assumptions: vec!["LUSERS, JOIN and the 403/404 distinction of PRIVMSG are outside the statement's list".into(), "LIST member counts are not compared for the invisible-user case (statement names WHO, NAMES, WHOIS)".into()],
        parts,
    }
}
