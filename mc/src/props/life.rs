//! C06 (session end leaves no trace), C11 (operator status), C19 (statistics, slots).

use super::common::*;
use super::lim;
use crate::bfs::{Act, Scenario, View};
use crate::check::{diff_m, Cat, Finding, Focus, StepObs, ALL_CATS};
use crate::run::{Part, Plan};
use crate::scn::{part, Cfg, CfgChan, ChatScn};
use crate::spec::SpecOper;
use crate::world::{Life, World};
use std::collections::BTreeSet;

fn oper_cfg(mask: Option<&str>) -> Cfg {
    Cfg {
        label: "oper".into(),
        opers: vec![SpecOper { name: "op".into(), password: "oppw".into(), mask: mask.map(|s| s.to_string()) }],
        ..Default::default()
    }
}

fn is_end_act(a: &Act) -> bool {
    match a {
        Act::Eof(_) | Act::EofPartial(_, _) | Act::Raw(_, _) => true,
        Act::Send(_, l) | Act::SendHeldFirst(_, l) => l.starts_with("QUIT") || l.starts_with("KILL"),
        _ => false,
    }
}

// ---------------------------------------------------------------------------
// C06

fn c06_scn(name: &str, full: bool, preconfigured: bool) -> ChatScn {
    let mut cfg = oper_cfg(None);
    if preconfigured {
        // configured ranks: the victim is operator and bob voiced whenever they join #y
        cfg.channels = vec![CfgChan { name: "#y".into(), topic: Some("kept".into()), operators: vec!["vic".into()], voices: vec!["bob".into(), "vic".into()], ..Default::default() }];
        cfg.label = "oper+preconfigured-#y".into();
    }
    let mut s = ChatScn::new(name, cfg, vec![part(0, "vic", "vicky", "vu"), part(1, "alice", "alicia", "au"), part(2, "bob", "bobby", "bu")], 1);
    s.prelude = vec![(1, "OPER op oppw".into()), (1, "JOIN #x".into())];
    // the victim also leaves channels before its session ends (what it left must stay left)
    let mut v: Vec<&'static str> = vec!["JOIN #x", "JOIN #y", "PART #y", "CAP END", "NICK {alt}", "MODE {me} +i", "MODE {me} +ii", "MODE {me} +w", "AWAY :t", "INVITE bob #y",
        // a rename refused because somebody else holds the name: the session that ends later is still the victim's own
        "NICK alice"];
    if full {
        v.extend(["OPER op oppw", "JOIN #z", "PART #x", "JOIN #x,#y", "PART #x,#y", "CAP LS 302", "CAP REQ :multi-prefix", "PASS x", "USER again 0 * :again"]);
    }
    for t in v {
        s.alphabet_for.push((0, t));
    }
    let mut a: Vec<&'static str> = vec!["MODE #x +o vic", "MODE #x +v vic", "INVITE vic #z", "KILL vic :bye"];
    if full {
        a.extend(["MODE #x +h vic", "PRIVMSG vic :queued", "KILL bob :bye", "KICK #x vic"]);
    }
    for t in a {
        s.alphabet_for.push((1, t));
    }
    for t in ["JOIN #y", "JOIN #x"] {
        s.alphabet_for.push((2, t));
    }
    s.alphabet_for.push((0, "QUIT"));
    s.extra_actions = Some(Box::new(move |_scn, v| {
        let mut acts = vec![];
        if v.life[0] == Life::Live {
            acts.push(Act::Eof(0));
            acts.push(Act::EofPartial(0, "PIN".into()));
            // mid-line with a fragment that would be visible if it were executed
            acts.push(Act::EofPartial(0, "PRIVMSG alice :half a li".into()));
            acts.push(Act::Raw(0, b"PING \xff\xfe\r\n".to_vec()));
            if full {
                // a line of the victim is in flight while the operator kills it
                if v.avail[0] == 0 {
                    acts.push(Act::Hold(0, "JOIN #w".into()));
                } else if v.life[1] == Life::Live {
                    acts.push(Act::SendHeldFirst(1, "KILL vic :raced".into()));
                    acts.push(Act::Send(1, "KILL vic :raced".into()));
                    acts.push(Act::Release(0));
                }
            }
        }
        if v.life[2] == Life::Live {
            acts.push(Act::Eof(2)); // a second session ending
        }
        // the operator kills the victim twice before the victim's task has acted on the first
        // notice: the second KILL finds a user that is already being wound up
        if v.life[0] == Life::Live && v.life[1] == Life::Live && v.registered(0) {
            if let Some(vn) = v.nick(0) {
                acts.push(Act::Raw(1, format!("KILL {} :once\r\nKILL {} :twice\r\n", vn, vn).into_bytes()));
            }
        }
        acts
    }));
    s.focus = Focus { cats: ALL_CATS.to_vec(), relays: true, relay_verbs: None, actor: false, actor_codes: None, closes: true };
    s.spec_skip = Some(Box::new(|a| !is_end_act(a)));
    s.invariants = vec!["membership-symmetry", "dangling-member", "rank-set", "dangling-wallops", "wallops-set", "empty-channel", "invisible-count", "operators-count"];
    s.after_step = Some(Box::new(c06_after));
    s.state_oracle = Some(Box::new(|_s, _w, v, _g| {
        let live = v.life.iter().filter(|l| **l == Life::Live).count();
        if v.snap.conns_count != live {
            vec![finding("slots", format!("connection counter {} but {} connections are live", v.snap.conns_count, live))]
        } else {
            vec![]
        }
    }));
    s.goals = vec!["ended-registered", "rereg", "probed-survivor"];
    s.orphan_check = true;
    s
}

/// Endings under `default_user_modes.local_oper`: every user starts as a local operator, OPER
/// makes it a global one as well - it is one operator all the same when its session ends.
fn c06_localoper_scn() -> ChatScn {
    let mut s = c06_scn("c06-endings-default-localoper", false, false);
    s.cfg.def_modes = (false, false, true, false, false);
    s.cfg.label = "oper+default-local_oper".into();
    s.prelude = vec![(1, "JOIN #x".into())];
    s.alphabet_for.retain(|(slot, t)| *slot == 0 && ["JOIN #x", "MODE {me} +i", "MODE {me} +w", "QUIT"].contains(t));
    for t in ["OPER op oppw", "MODE {me} -o", "MODE {me} -O"] {
        s.alphabet_for.push((0, t));
    }
    s.alphabet_for.push((1, "KILL vic :bye"));
    s
}

/// After an ending: the nick re-registers at once; survivors' views no longer
/// show the user; WHOWAS has the record.
fn c06_after(_scn: &ChatScn, w: &mut World, pre: &View, obs: &StepObs, post: &View, goals: &mut BTreeSet<String>) -> Vec<Finding> {
    let mut out = vec![];
    if !is_end_act(&obs.act) {
        return out;
    }
    // which registered users ended in this step?
    let mut ended = vec![];
    for i in 0..pre.life.len() {
        if pre.life[i] == Life::Live && post.life[i] != Life::Live && pre.registered(i) {
            ended.push(pre.nick(i).unwrap().to_string());
        }
    }
    if ended.is_empty() {
        return out;
    }
    goals.insert("ended-registered".into());
    let spare = 3;
    for nick in &ended {
        // a survivor's views
        if let Some(s) = (1..3).find(|s| post.registered(*s)) {
            goals.insert("probed-survivor".into());
            macro_rules! m {
                ($e:expr) => {
                    match $e {
                        Ok(v) => v,
                        Err(e) => return vec![finding("stalled", e.0)],
                    }
                };
            }
            let r = m!(query(w, s, &format!("ISON {}", nick)));
            if r.iter().any(|m| m.cmd == "303" && m.params.last().map_or(false, |p| p.split(' ').any(|x| x == nick))) {
                out.push(finding("trace:ison", format!("ISON still lists {} after {:?}", nick, obs.act.render())));
            }
            if m!(whois_view(w, s, nick)).is_some() {
                out.push(finding("trace:whois", format!("WHOIS still reports {} after {:?}", nick, obs.act.render())));
            }
            for ch in ["#x", "#y", "#z"] {
                if m!(names_view(w, s, ch)).contains_key(nick) {
                    out.push(finding("trace:names", format!("NAMES {} still lists {} after {:?}", ch, nick, obs.act.render())));
                }
                if m!(who_view(w, s, ch)).contains_key(nick) {
                    out.push(finding("trace:who", format!("WHO {} still lists {} after {:?}", ch, nick, obs.act.render())));
                }
            }
            let r = m!(query(w, s, &format!("WHOWAS {}", nick)));
            if !r.iter().any(|m| m.cmd == "314") {
                out.push(finding("trace:whowas", format!("no WHOWAS record of {} after {:?}", nick, obs.act.render())));
            }
        }
        // the nickname is immediately available again
        if w.conns[spare].life != Life::Live {
            if let Err(e) = w.register(spare, nick, "newu") {
                return vec![finding("stalled", e.0)];
            }
            let ls = w.take_lines(spare);
            goals.insert("rereg".into());
            if !ls.iter().any(|l| l.contains(" 001 ")) {
                out.push(finding("nick-not-freed", format!("{} cannot be registered again right after {:?}: {:?}", nick, obs.act.render(), ls)));
            }
            let _ = w.eof(spare);
        }
    }
    out
}

/// Ping-timeout endings: every silent connection is dropped; the state must be
/// the pre-state with exactly those users erased.
fn c06_timeout_scn(name: &str) -> ChatScn {
    let mut cfg = oper_cfg(None);
    cfg.ping_timeout = Some(2);
    cfg.pong_timeout = Some(1);
    cfg.label = "ping2-pong1".into();
    let mut s = ChatScn::new(name, cfg, vec![part(0, "vic", "vicky", "vu"), part(1, "alice", "alicia", "au"), part(2, "bob", "bobby", "bu")], 1);
    s.prelude = vec![(1, "JOIN #x".into()), (0, "JOIN #x".into()), (0, "JOIN #y".into()), (1, "MODE #x +o vic".into()), (0, "MODE vic +iw".into()), (2, "JOIN #y".into()), (1, "INVITE vic #z".into())];
    s.key_now = true;
    s.extra_actions = Some(Box::new(|_scn, v| {
        let mut acts = vec![Act::Tick];
        for s in [1usize, 2] {
            if v.life[s] == Life::Live && v.infos[s].as_ref().map_or(false, |i| i.pong_pending) {
                acts.push(Act::Send(s, "PONG :LALAL".into()));
            }
        }
        acts
    }));
    s.focus = Focus::state_only(&[]);
    s.spec_skip = Some(Box::new(|_| true));
    s.invariants = vec!["membership-symmetry", "dangling-member", "rank-set", "dangling-wallops", "wallops-set", "empty-channel", "invisible-count", "operators-count"];
    s.step_oracle = Some(Box::new(|_scn, pre, obs, post, goals| {
        let mut out = vec![];
        if obs.act != Act::Tick {
            return out;
        }
        let mut exp = pre.m.clone();
        let mut n = 0;
        for i in 0..pre.life.len() {
            if pre.life[i] == Life::Live && post.life[i] != Life::Live {
                if let Some(nick) = pre.nick(i) {
                    exp.erase_user(nick);
                    n += 1;
                }
            }
        }
        if n > 0 {
            goals.insert("timed-out".into());
        }
        if n > 1 {
            goals.insert("several-at-once".into());
        }
        if n == 1 {
            goals.insert("one-alone".into());
        }
        for (cat, msg) in diff_m(&exp, &post.m) {
            out.push(Finding { sig: format!("timeout:state:{:?}", cat), detail: msg });
        }
        out
    }));
    s.goals = vec!["timed-out", "several-at-once", "one-alone"];
    s
}

// ---------------------------------------------------------------------------
// C11

fn c11_scn(label: &str, mask: Option<&'static str>, defm: (bool, bool, bool, bool, bool), full: bool) -> ChatScn {
    let mut cfg = oper_cfg(mask);
    cfg.def_modes = defm;
    cfg.label = label.to_string();
    // ann can rename herself to the configured operator *name* "op"
    let mut s = ChatScn::new(&format!("c11-{}", label), cfg, vec![part(0, "ann", "op", "au"), part(1, "ben", "benny", "bu"), part(2, "wit", "witty", "wu")], 0);
    s.prelude = vec![(2, "MODE wit +w".into())];
    let mut a: Vec<&'static str> = vec![
        "OPER op oppw", "OPER op bad", "OPER nosuch oppw", "MODE {me} +o", "MODE {me} -o", "MODE {me} +O", "MODE {me} -O", "MODE {me} +w", "MODE {peer} +o", "NICK {alt}", "KILL {peer} :c", "WALLOPS :m", "STATS u", "STATS o", "STATS m", "STATS l", "DIE", "SQUIT irc.irc :c", "USER root 8 * :Root", "PASS oppw",
    ];
    if full {
        a.extend(["MODE {me} -w", "MODE {me} +i", "MODE {me} +oO", "MODE {me} -o+o", "MODE {me} -oO", "KILL nosuch :c", "KILL {me} :c", "SQUIT other.net :c", "QUIT", "MODE {peer} -o", "DIE :msg"]);
    }
    for slot in 0..2 {
        for t in &a {
            s.alphabet_for.push((slot, t));
        }
    }
    s.focus = Focus::all();
    s.invariants = vec!["operators-count", "wallops-set", "dangling-wallops"];
    for slot in 0..3 {
        s.probes_for.push((slot, "MODE {me}"));
    }
    s.probe_focus = Some(Focus { cats: vec![], relays: false, relay_verbs: None, actor: true, actor_codes: Some(vec!["221"]), closes: false });
    // several operator commands in one segment: the second acts while the first one's victim
    // is still winding up
    s.extra_actions = Some(Box::new(|scn, v| {
        let mut acts = vec![];
        for p in &scn.parts {
            if p.slot > 1 {
                continue;
            }
            if let Some(me) = v.nick(p.slot) {
                if !v.m.users.get(me).map_or(false, |u| u.o) {
                    continue;
                }
                for q in &scn.parts {
                    if q.slot == p.slot {
                        continue;
                    }
                    if let Some(peer) = v.nick(q.slot) {
                        acts.push(Act::Raw(p.slot, format!("KILL {} :c\r\nDIE :closing\r\n", peer).into_bytes()));
                        acts.push(Act::Raw(p.slot, format!("KILL {} :c\r\nKILL {} :again\r\nWALLOPS :w\r\n", peer, peer).into_bytes()));
                    }
                }
            }
        }
        acts
    }));
    s
}

/// "No user can change another user's modes": two users whose nicknames differ only
/// in letter case are two users (the server keys users by the exact nick).
pub fn c11_case_scn() -> ChatScn {
    let mut s = ChatScn::new("c11-case-variant-nicks", oper_cfg(None), vec![part(0, "fanny", "fan", "fu"), part(1, "Fanny", "Fan", "gu"), part(2, "wit", "witty", "wu")], 0);
    s.prelude = vec![(2, "MODE wit +w".into())];
    for slot in 0..2 {
        for t in ["OPER op oppw", "MODE {peer} -o", "MODE {peer} +i", "MODE {peer} -w", "MODE {peer}", "MODE {me} +w", "MODE {me} -o", "KILL {peer} :c", "NICK {alt}"] {
            s.alphabet_for.push((slot, t));
        }
    }
    s.focus = Focus::all();
    s.invariants = vec!["operators-count", "wallops-set", "dangling-wallops"];
    for slot in 0..2 {
        s.probes_for.push((slot, "MODE {me}"));
    }
    s.probe_focus = Some(Focus { cats: vec![], relays: false, relay_verbs: None, actor: true, actor_codes: Some(vec!["221"]), closes: false });
    s
}

/// "Predefined operators" and "default user modes" as C20 sees them.
pub fn c20_oper_parts(quick: bool) -> Vec<Part> {
    vec![
        Part::Bfs(Box::new(c11_scn("mask-match-def-wallops", Some("*!~au@127.0.0.1"), (false, false, false, false, true), false)), lim(if quick { 4 } else { 5 }, 2_000_000, if quick { 8.0 } else { 300.0 })),
        Part::Bfs(Box::new(c11_scn("mask-match-def-localoper", Some("*!~au@127.0.0.1"), (false, false, true, false, false), false)), lim(if quick { 4 } else { 5 }, 2_000_000, if quick { 8.0 } else { 300.0 })),
    ]
}

fn c11_plan_parts(quick: bool) -> Vec<Part> {
    let mut parts = vec![];
    let masks: Vec<(&str, Option<&'static str>)> = vec![("nomask", None), ("mask-match", Some("*!~au@127.0.0.1")), ("mask-mismatch", Some("*!*@10.*")), ("mask-other-username", Some("*!~root@127.0.0.1"))];
    let defs: Vec<(&str, (bool, bool, bool, bool, bool))> = vec![("def-none", (false, false, false, false, false)), ("def-oper", (false, true, false, false, false)), ("def-localoper", (false, false, true, false, false)), ("def-wallops", (false, false, false, false, true)),
        // several default modes at once: each of them is held from the registration on
        ("def-invisible-wallops", (true, false, false, false, true))];
    for (ml, m) in &masks {
        for (dl, d) in &defs {
            if quick && !(*ml == "nomask" || *dl == "def-none") {
                continue;
            }
            let label = format!("{}-{}", ml, dl);
            parts.push(Part::Bfs(Box::new(c11_scn(&label, *m, *d, !quick)), lim(if quick { 5 } else { 5 }, 2_000_000, if quick { 8.0 } else { 300.0 })));
        }
    }
    // an operator name that is configured twice in front of the entry under test: every entry
    // is still looked up by its own name, password and mask
    {
        let mut dup = c11_scn("nomask-dup-oper-names", None, (false, false, false, false, false), false);
        dup.cfg.opers.insert(0, SpecOper { name: "admin".into(), password: "pwA".into(), mask: Some("*!*@10.*".into()) });
        dup.cfg.opers.insert(1, SpecOper { name: "admin".into(), password: "pwB".into(), mask: None });
        for slot in 0..2 {
            dup.alphabet_for.retain(|(_, t)| !t.starts_with("STATS") && !t.starts_with("SQUIT") && !t.starts_with("USER") && !t.starts_with("PASS"));
            dup.alphabet_for.push((slot, "OPER op pwB"));
            dup.alphabet_for.push((slot, "OPER admin pwB"));
        }
        parts.push(Part::Bfs(Box::new(dup), lim(if quick { 4 } else { 5 }, 2_000_000, if quick { 8.0 } else { 300.0 })));
    }
    parts.push(Part::Bfs(Box::new(c11_ghost(!quick)), lim(if quick { 6 } else { 7 }, 2_000_000, if quick { 20.0 } else { 600.0 })));
    parts.push(Part::Bfs(Box::new(c11_case_scn()), lim(if quick { 4 } else { 5 }, 2_000_000, if quick { 20.0 } else { 300.0 })));
    parts
}

// ---------------------------------------------------------------------------
// C19

fn c19_scn(name: &str, full: bool) -> ChatScn {
    let mut s = ChatScn::new(name, oper_cfg(None), vec![part(0, "alice", "alicia", "au"), part(1, "bob", "bobby", "bu"), part(2, "carol", "caro", "cu")], 1);
    let mut a: Vec<&'static str> = vec!["MODE {me} +i", "MODE {me} -i", "MODE {me} +i-i", "OPER op oppw", "MODE {me} -o", "MODE {me} -oO", "AWAY :t", "NICK {alt}", "JOIN #x", "PART #x", "MODE #x +s", "CAP END", "QUIT"];
    if full {
        a.extend(["MODE #x -s", "MODE {me} -O", "MODE {me} +o", "MODE {me} +O", "MODE {me} -Oo", "MODE {me} -o-O+i", "AWAY", "KILL {peer} :x", "JOIN #y"]);
    }
    for slot in 0..3 {
        for t in &a {
            s.alphabet_for.push((slot, t));
        }
    }
    s.alphabet_for.push((0, "KILL {peer} :x"));
    s.ends = vec!["eof"];
    s.extra_actions = Some(Box::new(|_scn, v| {
        let mut acts = vec![];
        match &v.life[3] {
            Life::Unconnected | Life::Finished => acts.push(Act::Connect(3)),
            Life::Live => {
                if !v.registered(3) {
                    let inf = v.infos[3].as_ref();
                    if inf.map_or(true, |i| i.nick.is_none()) {
                        acts.push(Act::Send(3, "NICK dan".into()));
                    } else {
                        acts.push(Act::Send(3, "USER du 0 * :r".into()));
                    }
                }
                acts.push(Act::Eof(3));
            }
            _ => {}
        }
        acts
    }));
    s.focus = Focus { cats: vec![Cat::UserModes, Cat::UserExistence, Cat::MaxUsers, Cat::Away, Cat::ChanExistence, Cat::Membership], relays: false, relay_verbs: None, actor: false, actor_codes: None, closes: false };
    s.invariants = vec!["invisible-count", "operators-count", "max-users"];
    s.orphan_check = true;
    for slot in 0..3 {
        s.probes_for.push((slot, "LUSERS"));
    }
    s.probes_for.push((0, "ISON alice alicia bob bobby carol dan nosuch"));
    s.probes_for.push((1, "ISON alice alicia bob bobby carol dan nosuch"));
    s.probes_for.push((2, "USERHOST alice alicia bob bobby"));
    s.probes_for.push((0, "USERHOST carol caro dan nosuch"));
    s.probe_focus = Some(Focus { cats: vec![], relays: false, relay_verbs: None, actor: true, actor_codes: Some(vec!["251", "252", "254", "255", "265", "266", "303", "302"]), closes: false });
    s
}

/// Channels are created and destroyed by every means (PART, KICK of the last member by
/// himself, QUIT): LUSERS 254 and LIST follow.
fn c19_channels_scn() -> ChatScn {
    let mut s = c19_scn("c19-channel-count", false);
    s.alphabet_for.retain(|(slot, t)| *slot < 2 && ["JOIN #x", "PART #x", "QUIT"].contains(t));
    for slot in 0..2 {
        for t in ["MODE #x +o {peer}", "KICK #x {me}", "KICK #x {peer}", "JOIN #y", "KICK #y {me}"] {
            s.alphabet_for.push((slot, t));
        }
    }
    s.extra_actions = None;
    s.invariants = vec!["invisible-count", "operators-count", "max-users", "empty-channel", "membership-symmetry"];
    s.focus.cats.push(Cat::Ranks);
    s
}

/// The channel count next to refused JOINs (max_joins = 1): a refused JOIN forms no channel.
fn c19_quota_scn() -> ChatScn {
    let mut s = c19_channels_scn();
    s.name = "c19-channel-count-quota".into();
    s.cfg.max_joins = Some(1);
    s.cfg.label = "max_joins=1".into();
    s.alphabet_for.retain(|(_, t)| !t.starts_with("MODE") && !t.starts_with("KICK #y"));
    for slot in 0..2 {
        s.alphabet_for.push((slot, "JOIN #z,#y"));
        s.alphabet_for.push((slot, "PART #y"));
    }
    s
}

/// "A WHOWAS record of it is kept": the same nickname is used by one session after another
/// (and released by renames in between); after every release the newest record is the one
/// just released, and records come newest first.
fn c06_whowas_reuse() -> crate::run::PartResult {
    use crate::run::PartResult;
    let t0 = std::time::Instant::now();
    let mut r = PartResult::new("fun:c06-whowas-reuse", "E-FUN");
    let mut w = World::new(oper_cfg(None).main_config(), 3);
    let fv = |f: Finding, k: usize| crate::bfs::Violation { scenario: "fun:c06-whowas-reuse".into(), sig: f.sig, detail: f.detail, history: vec![], transcript: vec![format!("session {}", k)] };
    if w.register(0, "watcher", "wu").is_err() {
        r.machinery = Some("setup".into());
        return r;
    }
    for k in 1..=8usize {
        r.evaluations += 1;
        let user = format!("user{}", k);
        let released = if k % 3 == 0 {
            // released by a rename instead of a session end
            w.register(1, "reuse", &user).and_then(|_| w.send(1, "NICK other")).and_then(|_| w.send(1, "QUIT"))
        } else if k % 3 == 1 {
            w.register(1, "reuse", &user).and_then(|_| w.send(1, "QUIT"))
        } else {
            w.register(1, "reuse", &user).and_then(|_| w.eof(1))
        };
        if let Err(e) = released {
            r.machinery = Some(e.0);
            break;
        }
        w.take_all();
        let _ = w.send(0, "WHOWAS reuse 1");
        let newest = w.take_lines(0);
        if !newest.iter().any(|l| l.contains(" 314 ") && l.contains(&format!("~{} ", user))) {
            r.violations.push(fv(finding("whowas:newest-missing", format!("after session {} (user {}) released the nick, WHOWAS reuse 1 answers {:?}", k, user, newest)), k));
        }
        let _ = w.send(0, "WHOWAS reuse");
        let all: Vec<String> = w.take_lines(0).into_iter().filter(|l| l.contains(" 314 ")).collect();
        if all.first().map_or(true, |l| !l.contains(&format!("~{} ", user))) {
            r.violations.push(fv(finding("whowas:order", format!("after session {}: the first WHOWAS record is not the newest: {:?}", k, all)), k));
        }
        if w.conns.iter().any(|c| matches!(c.life, Life::Panicked(_))) {
            r.violations.push(fv(finding("whowas:panic", "a connection task aborted".into()), k));
        }
    }
    r.states = r.evaluations;
    r.transitions = r.evaluations * 4;
    r.distinct = r.evaluations;
    r.traces = r.evaluations;
    r.exhaustive = true;
    r.samples = vec![serde_json::json!({"sessions": 8, "releases": "QUIT, EOF, rename+QUIT in turn"})];
    r.wall_s = t0.elapsed().as_secs_f64();
    r
}

/// "The client closing or resetting the socket ... with unread output pending": the victim
/// stops reading (socket buffer `cap`), output piles up until its task waits for the socket,
/// then the client drops the connection. One case = (cap, who produces the output).
pub fn c06_unread_case(cap: usize, source: &str) -> Vec<Finding> {
    let mut out = vec![];
    let mut w = World::new(oper_cfg(None).main_config(), 3);
    macro_rules! m {
        ($e:expr) => {
            match $e {
                Ok(v) => v,
                Err(e) => return vec![finding("machinery", e.0)],
            }
        };
    }
    m!(w.connect_cap(0, cap));
    m!(w.send(0, "NICK vic"));
    m!(w.send(0, "USER vu 8 * :Real vu"));
    m!(w.register(1, "bob", "bu"));
    m!(w.register(2, "carol", "cu"));
    m!(w.send(0, "JOIN #room"));
    m!(w.send(1, "JOIN #room"));
    m!(w.send(0, "JOIN #solo"));
    m!(w.send(0, "MODE vic +w"));
    m!(w.send(0, "MODE #room +v bob"));
    m!(w.send(1, "INVITE carol #room"));
    w.take_all();
    w.conns[0].stalled = true;
    let text = "x".repeat(1700);
    let mut waited = false;
    if source == "own-replies" || source == "both" {
        let names = format!("NAMES {}", vec!["#room"; 300].join(","));
        // (one such line yields roughly 30 KB of replies: enough lines for the buffer at hand)
        for _ in 0..(cap / 16384 + 2) {
            waited |= m!(w.send_observe_block(0, &names));
            if waited || w.conns[0].blocked {
                break;
            }
        }
    }
    if source == "relays" || source == "both" {
        for _ in 0..60 {
            if m!(w.send_observe_block(1, &format!("PRIVMSG #room :{}", text))) {
                out.push(finding("unread:bystander-starved", "the sender of the relayed messages got stuck".into()));
                return out;
            }
            if w.conns[0].blocked {
                waited = true;
                break;
            }
        }
    }
    if !waited && !w.conns[0].blocked {
        out.push(finding("machinery", format!("cap {} source {}: the victim's task never waited for its socket", cap, source)));
        return out;
    }
    // more is queued for the victim while it waits
    m!(w.send_observe_block(1, "PRIVMSG vic :direct"));
    let ended = m!(w.eof_unread(0));
    if let Life::Panicked(msg) = &w.conns[0].life {
        out.push(finding("unread:panic", format!("the victim's task aborted: {}", msg)));
    }
    if !ended {
        out.push(finding("unread:task-lives", "the client dropped the connection with unread output pending, but its task never ends".into()));
    }
    let snap = w.snapshot();
    let mm = crate::spec::M::from_snapshot(&snap);
    if mm.users.contains_key("vic") {
        out.push(finding("unread:user-stays", "after the client dropped the connection (unread output pending) user vic is still registered".into()));
    }
    for (cn, c) in &mm.chans {
        if c.members.contains_key("vic") {
            out.push(finding("unread:member-stays", format!("vic is still a member of {}", cn)));
        }
    }
    if mm.chans.contains_key("#solo") {
        out.push(finding("unread:channel-stays", "#solo (vic was its only member) still exists".into()));
    }
    // nothing else changed
    if !mm.chans.get("#room").map_or(false, |c| c.members.get("bob").map_or(false, |x| x.v) && c.members.len() == 1) {
        out.push(finding("unread:others-changed", format!("#room after the end: {:?}", mm.chans.get("#room").map(|c| c.members.clone()))));
    }
    if !mm.users.get("carol").map_or(false, |u| u.invited.contains("#room")) {
        out.push(finding("unread:others-changed", "carol's pending invitation to #room is gone".into()));
    }
    // survivors are served, the nick is free, WHOWAS has the record, WALLOPS audience is clean
    w.take_all();
    m!(w.send(1, "WHOWAS vic"));
    if !w.take_lines(1).iter().any(|l| l.contains(" 314 ") && l.contains("~vu")) {
        out.push(finding("unread:no-whowas", "no WHOWAS record of vic".into()));
    }
    m!(w.send(2, "NICK vic"));
    if !w.take_lines(2).iter().any(|l| l.contains("NICK") && l.contains("vic")) {
        out.push(finding("unread:nick-not-free", "carol cannot take the nickname vic".into()));
    }
    m!(w.send(1, "PRIVMSG #room :still here"));
    m!(w.send(1, "PING t"));
    if !w.take_lines(1).iter().any(|l| l.contains("PONG")) {
        out.push(finding("unread:survivor-unserved", "bob gets no PONG".into()));
    }
    for (i, c) in w.conns.iter().enumerate() {
        if i != 0 {
            if let Life::Panicked(msg) = &c.life {
                out.push(finding("unread:panic", format!("connection {} aborted: {}", i, msg)));
            }
        }
    }
    out
}

fn c06_unread_part(quick: bool) -> crate::run::PartResult {
    use crate::run::PartResult;
    let t0 = std::time::Instant::now();
    let name = "fun:c06-unread-output";
    let mut r = PartResult::new(name, "E-FUN");
    let caps: Vec<usize> = if quick { vec![2560, 16384] } else { vec![2560, 4096, 16384, 65536] };
    let mut distinct = BTreeSet::new();
    for cap in caps {
        for source in ["own-replies", "relays", "both"] {
            r.evaluations += 1;
            let fs = c06_unread_case(cap, source);
            distinct.insert(fs.iter().map(|f| f.sig.clone()).collect::<Vec<_>>().join(","));
            for f in fs {
                if f.sig == "machinery" {
                    r.machinery = Some(f.detail.clone());
                }
                r.violations.push(crate::bfs::Violation { scenario: name.into(), sig: f.sig, detail: f.detail, history: vec![], transcript: vec![serde_json::json!({"cap": cap, "source": source}).to_string()] });
            }
        }
    }
    if r.machinery.is_some() {
        r.violations.clear();
    }
    r.states = r.evaluations;
    r.transitions = r.evaluations * 20;
    r.distinct = r.evaluations;
    r.traces = r.evaluations;
    r.exhaustive = true;
    r.samples = vec![serde_json::json!({"cap": 2560, "source": "relays", "then": "client drops the socket while its task waits for it"})];
    r.extra = serde_json::json!({"cases": r.evaluations, "distinct_outcomes": distinct.len()});
    r.wall_s = t0.elapsed().as_secs_f64();
    r
}

/// Statistics when every user starts as a local operator.
fn c19_localoper_scn(full: bool) -> ChatScn {
    let mut s = c19_scn("c19-stats-default-localoper", full);
    s.cfg.def_modes = (false, false, true, false, false);
    s.cfg.label = "oper+default-local_oper".into();
    s.alphabet_for.retain(|(slot, t)| *slot < 2 && ["OPER op oppw", "MODE {me} -o", "MODE {me} -oO", "MODE {me} -O", "MODE {me} +i", "NICK {alt}", "QUIT"].contains(t));
    for slot in 0..2 {
        s.alphabet_for.push((slot, "MODE {me} -O"));
    }
    s
}

/// (b) connection slots under max_connections.
pub struct Slots {
    pub max: usize,
    pub with_password: bool,
}

impl Scenario for Slots {
    fn name(&self) -> String {
        format!("c19-slots-max{}{}", self.max, if self.with_password { "-pw" } else { "" })
    }
    fn slots(&self) -> usize {
        4
    }
    fn config(&self) -> crate::config::MainConfig {
        self.cfg().main_config()
    }
    fn spec_cfg(&self) -> crate::spec::SpecCfg {
        self.cfg().spec_cfg()
    }
    fn actions(&self, v: &View) -> Vec<Act> {
        let mut acts = vec![];
        let mut offered_connect = false;
        for i in 0..4 {
            match &v.life[i] {
                Life::Live => {
                    acts.push(Act::Eof(i));
                    if v.registered(i) {
                        acts.push(Act::Send(i, "QUIT".into()));
                        if i == 0 {
                            acts.push(Act::Send(i, "OPER op oppw".into()));
                            for j in 1..4 {
                                if let Some(n) = v.nick(j) {
                                    if v.registered(j) {
                                        acts.push(Act::Send(i, format!("KILL {} :x", n)));
                                    }
                                }
                            }
                        }
                    } else {
                        let inf = v.infos[i].as_ref();
                        if self.with_password && inf.map_or(true, |x| x.password.is_none()) {
                            acts.push(Act::Send(i, "PASS wrong".into()));
                            acts.push(Act::Send(i, "PASS right".into()));
                        }
                        if inf.map_or(true, |x| x.nick.is_none()) {
                            acts.push(Act::Send(i, format!("NICK n{}", i)));
                        } else {
                            acts.push(Act::Send(i, format!("USER u{} 0 * :r", i)));
                        }
                        acts.push(Act::Raw(i, b"\xff\r\n".to_vec()));
                    }
                }
                Life::Panicked(_) => {}
                _ => {
                    if !offered_connect {
                        acts.push(Act::Connect(i));
                        offered_connect = true;
                    }
                }
            }
        }
        acts
    }
    fn focus(&self) -> Focus {
        Focus::state_only(&[])
    }
    fn spec_applies(&self, _a: &Act) -> bool {
        false
    }
    fn step_oracle(&self, pre: &View, obs: &StepObs, post: &View, goals: &mut BTreeSet<String>) -> Vec<Finding> {
        let mut out = vec![];
        let live_pre = pre.life.iter().filter(|l| **l == Life::Live).count();
        let live_post = post.life.iter().filter(|l| **l == Life::Live).count();
        if live_post > self.max {
            out.push(finding("slots:over", format!("{} connections served with max_connections={}", live_post, self.max)));
        }
        if post.snap.conns_count != live_post {
            out.push(finding("slots:leak", format!("after {:?}: connection counter {} but {} connections are live", obs.act.render(), post.snap.conns_count, live_post)));
        }
        if let Act::Connect(i) = obs.act {
            if live_pre < self.max {
                if post.life[i] != Life::Live {
                    out.push(finding("slots:refused", format!("connect refused although only {} of {} slots are used", live_pre, self.max)));
                } else {
                    goals.insert("served".into());
                    if pre.depth > 1 {
                        goals.insert("served-after-ending".into());
                    }
                }
            } else {
                if post.life[i] == Life::Live {
                    out.push(finding("slots:over", format!("connect accepted with {} of {} slots used", live_pre, self.max)));
                } else {
                    goals.insert("refused".into());
                }
            }
        }
        out
    }
    fn goals(&self) -> Vec<&'static str> {
        vec!["served", "refused", "served-after-ending"]
    }
}

impl Slots {
    fn cfg(&self) -> Cfg {
        let mut c = oper_cfg(None);
        c.max_connections = Some(self.max);
        if self.with_password {
            c.password = Some("right".into());
        }
        c
    }
}

/// C06 for sessions that end before, during or after a contended registration
/// (see ghost.rs): the end of a connection that never registered changes nothing,
/// the end of the registered one erases exactly that user.
fn c06_ghost(full: bool) -> ChatScn {
    super::ghost::ghost_scn("c06-ghost", crate::check::ALL_CATS, full)
}

/// C19 statistics and presence around a contended registration.
fn c19_ghost(full: bool) -> ChatScn {
    let mut s = super::ghost::ghost_scn("c19-ghost", &[Cat::UserModes, Cat::UserExistence, Cat::MaxUsers, Cat::ChanExistence, Cat::Membership], full);
    s.probes_for = vec![(0, "LUSERS"), (0, "ISON alice bob bobby nosuch"), (0, "USERHOST alice bob bobby")];
    s.probe_focus = Some(Focus { cats: vec![], relays: false, relay_verbs: None, actor: true, actor_codes: Some(vec!["251", "252", "254", "255", "265", "266", "303", "302"]), closes: false });
    s
}

/// C11 around a contended registration: whoever wins the nickname may become an
/// operator; the connection that lost (or never finished) is not registered, so its
/// KILL / DIE / WALLOPS / MODE must be answered 451 and do nothing, and it never
/// shares the winner's privileges.
fn c11_ghost(full: bool) -> ChatScn {
    let mut s = super::ghost::ghost_scn("c11-ghost", crate::check::ALL_CATS, full);
    s.cfg = oper_cfg(None);
    for slot in [1usize, 2] {
        s.alphabet_for.push((slot, "OPER op oppw"));
    }
    s.extra_actions = Some(Box::new(|_scn, v| {
        let mut acts = vec![];
        for slot in [1usize, 2] {
            // a connection that holds a nick but is not registered tries operator commands
            if v.life[slot] == Life::Live && v.nick(slot).is_none() && v.infos[slot].as_ref().map_or(false, |i| i.nick.is_some()) {
                for l in ["KILL alice :x", "MODE bob -o", "WALLOPS :w", "DIE"] {
                    acts.push(Act::Send(slot, l.to_string()));
                }
            }
        }
        acts
    }));
    s.focus = Focus { cats: ALL_CATS.to_vec(), relays: true, relay_verbs: None, actor: true, actor_codes: Some(vec!["451", "481", "381", "ERROR", "MODE", "WALLOPS"]), closes: true };
    s
}

pub fn plan(property: &str, quick: bool) -> Plan {
    let t = |q: f64, th: f64| if quick { q } else { th };
    match property {
        "C06" => Plan {
            property: "C06".into(),
            rule: "E-SEQ BFS: a victim accumulates memberships (creating or joining), ranks, +i/+w, away, operator status, pending invitations in both directions; in every reachable state it ends by QUIT, EOF, EOF after a partial line, an invalid-UTF-8 line, KILL by an operator (also raced against an in-flight line of the victim) while another session may end too; separate scenario with ping_timeout=2/pong_timeout=1 where silent connections time out (alone and several at once); one configuration with a preconfigured channel. Oracle: erase-differential on the whole abstract state (nothing else changes), connection counter = live connections, survivors' ISON/WHOIS/NAMES/WHO no longer show the user, WHOWAS has it, the nick re-registers at once".into(),
            assumptions: vec!["unread output pending at the victim is explored in fun:c06-unread-output only (one victim, buffers 2.5-64 KiB); the BFS scenarios read every socket after every step".into()],
            parts: vec![
                Part::Bfs(Box::new(c06_scn("c06-endings", !quick, false)), lim(if quick { 6 } else { 7 }, 3_000_000, t(30.0, 900.0))),
                Part::Bfs(Box::new(c06_scn("c06-endings-preconfigured", false, true)), lim(if quick { 5 } else { 7 }, 3_000_000, t(15.0, 600.0))),
                // "its nickname is immediately available again": also under a connection limit, with
                // refused connections in between (the slot scenario of C19)
                Part::Bfs(Box::new(Slots { max: 2, with_password: false }), lim(if quick { 7 } else { 9 }, 2_000_000, t(5.0, 300.0))),
                Part::Bfs(Box::new(c06_localoper_scn()), lim(if quick { 5 } else { 6 }, 2_000_000, t(15.0, 300.0))),
                Part::Bfs(Box::new(c06_timeout_scn("c06-timeout")), lim(if quick { 6 } else { 8 }, 1_000_000, t(10.0, 300.0))),
                Part::Bfs(Box::new(c06_ghost(!quick)), lim(if quick { 6 } else { 8 }, 2_000_000, t(20.0, 600.0))),
                // an ending applied while another connection takes over the nickname: every interleaving (E-INT)
                Part::Custom("int:kill-vs-reregistration".into(), Box::new(|| super::c18::burst_part("kill-vs-reregistration"))),
                Part::Custom("fun:c06-whowas-reuse".into(), Box::new(c06_whowas_reuse)),
                Part::Custom("fun:c06-unread-output".into(), Box::new(move || c06_unread_part(quick))),
            ],
        },
        "C11" => Plan {
            property: "C11".into(),
            rule: "E-SEQ BFS per configuration (operator mask none/matching/non-matching x default user modes none/oper/local_oper/wallops; quick: the 6 on the axes): two users and a +w witness issue OPER (right/wrong name and password), MODE on own and foreign nicks with o/O/w/i and sign-switching strings, NICK to and from the configured operator name, KILL, WALLOPS, STATS, DIE, SQUIT. Oracle: Spec - operator flag changes only by successful OPER / own -o,-O / defaults / disconnect; foreign MODE => 502; unprivileged commands => 481/483 and nothing happens; KILL ends exactly the named user with an ERROR naming the killer; WALLOPS reaches exactly +w users; DIE ends every session and fires the server-quit signal".into(),
            assumptions: vec!["process exit after DIE is observed as the fired quit signal (the accept loop is outside the in-memory world)".into()],
            parts: c11_plan_parts(quick),
        },
        "C19" => Plan {
            property: "C19".into(),
            rule: "(a) E-SEQ BFS: 3 users + a fourth that connects/registers/leaves; alphabet MODE +-i, OPER (also repeated), MODE -o/-O/+o/+O, AWAY, NICK, JOIN/PART, QUIT, EOF, KILL; probes LUSERS, ISON, USERHOST in every state; oracle: 251/252/254/255/265/266 equal recounts of the abstract state and the true high-water mark, ISON/USERHOST list exactly the registered queried nicks with operator/away flags, counters equal recounts; (b) max_connections in {1,2,3} (with and without a server password): every pattern of connect, register, wrong password, invalid bytes, QUIT, EOF, KILL up to the bound; never more than max served, (max+1)-th refused, counter = live connections after every step, a slot freed by any ending is served again".into(),
            assumptions: vec![],
            parts: {
                let mut p = vec![Part::Bfs(Box::new(c19_scn("c19-stats", !quick)), lim(if quick { 5 } else { 6 }, 3_000_000, t(30.0, 900.0)))];
                p.push(Part::Bfs(Box::new(c19_ghost(!quick)), lim(if quick { 6 } else { 8 }, 2_000_000, t(20.0, 600.0))));
                // every user starts as a local operator (default_user_modes.local_oper): OPER, -o, -O, endings
                p.push(Part::Bfs(Box::new(c19_localoper_scn(!quick)), lim(if quick { 4 } else { 5 }, 2_000_000, t(20.0, 600.0))));
                p.push(Part::Bfs(Box::new(c19_channels_scn()), lim(if quick { 6 } else { 7 }, 2_000_000, t(20.0, 600.0))));
                p.push(Part::Bfs(Box::new(c19_quota_scn()), lim(if quick { 5 } else { 7 }, 2_000_000, t(20.0, 600.0))));
                for max in [1usize, 2, 3] {
                    p.push(Part::Bfs(Box::new(Slots { max, with_password: false }), lim(if quick { 7 } else { 10 }, 2_000_000, t(5.0, 300.0))));
                }
                p.push(Part::Bfs(Box::new(Slots { max: 2, with_password: true }), lim(if quick { 7 } else { 9 }, 2_000_000, t(5.0, 300.0))));
                p
            },
        },
        _ => unreachable!(),
    }
}
