//! C17 - keep-alive drops dead peers and keeps live ones (virtual clock).

use super::common::*;
use super::lim;
use crate::bfs::{Act, Scenario, View};
use crate::check::{Finding, Focus, StepObs};
use crate::run::{Part, Plan};
use crate::scn::Cfg;
use crate::world::{Life, World};
use std::collections::BTreeSet;

pub struct KeepAlive {
    pub ping: u64,
    pub pong: u64,
    pub full: bool,
    /// seconds the connection stays unregistered before it sends NICK/USER; the
    /// keep-alive schedule counts from the completed registration
    pub delay: u64,
}

impl KeepAlive {
    fn cfg(&self) -> Cfg {
        Cfg { ping_timeout: Some(self.ping), pong_timeout: Some(self.pong), label: format!("ping{}-pong{}", self.ping, self.pong), ..Default::default() }
    }

    /// Reference keep-alive model over the history: (virtual now, time of the
    /// first unanswered PING if any, client said QUIT).
    fn model(&self, hist: &[Act]) -> (u64, Option<u64>, bool) {
        let mut now = 0u64;
        let mut outstanding: Option<u64> = None;
        let mut quit = false;
        for a in hist {
            match a {
                Act::Tick | Act::TickReverse => {
                    now += 1;
                    if now % self.ping == 0 && outstanding.is_none() {
                        outstanding = Some(now);
                    }
                }
                Act::Send(_, l) => {
                    let u = l.to_ascii_uppercase();
                    if u.starts_with("PONG") {
                        outstanding = None;
                    }
                    if u.starts_with("QUIT") {
                        quit = true;
                    }
                }
                _ => {}
            }
        }
        (now, outstanding, quit)
    }
}

impl Scenario for KeepAlive {
    fn name(&self) -> String {
        if self.delay == 0 {
            format!("c17-ping{}-pong{}", self.ping, self.pong)
        } else {
            format!("c17-ping{}-pong{}-late{}", self.ping, self.pong, self.delay)
        }
    }
    fn slots(&self) -> usize {
        1
    }
    fn config(&self) -> crate::config::MainConfig {
        self.cfg().main_config()
    }
    fn spec_cfg(&self) -> crate::spec::SpecCfg {
        self.cfg().spec_cfg()
    }
    fn prelude(&self, w: &mut World) -> Result<(), crate::world::MachineryError> {
        if self.delay == 0 {
            w.register(0, "cli", "cu")?;
            // the client holds what the clean-up has to take away: a channel of its own, +i, +w
            w.send(0, "JOIN #room")?;
            w.send(0, "MODE cli +i")?;
            return w.send(0, "MODE cli +w");
        }
        w.connect(0)?;
        for _ in 0..self.delay {
            w.tick()?;
        }
        // nothing is owed to (or asked of) a connection that has not registered
        let early = w.take_lines(0);
        if early.iter().any(|l| l.contains(" PING ")) {
            return Err(crate::world::MachineryError(format!("PRELUDE-VIOLATION a PING was sent to a connection that has not registered: {:?}", early)));
        }
        w.send(0, "NICK cli")?;
        w.send(0, "USER cu 8 * :Real cu")
    }
    fn key_extra(&self, w: &World) -> u64 {
        w.now
    }
    fn key_hist(&self, hist: &[Act]) -> u64 {
        // the reference keep-alive model's state is part of the state key: a
        // client PING and a client PONG may leave the server in the same state
        // and must still not be merged (the oracle treats them differently)
        let (now, outstanding, quit) = self.model(hist);
        1 + (crate::canon::hash128(&(now, outstanding, quit)) as u64 >> 1)
    }
    fn actions(&self, v: &View) -> Vec<Act> {
        // when the ping tick and the pong deadline fall into the same second the server's select!
        // may serve them in either order
        let mut acts = vec![Act::Tick, Act::TickReverse];
        if v.life[0] == Life::Live {
            acts.push(Act::Send(0, "PONG :LALAL".into()));
            // "PONG with any token": another token, and the two-parameter form
            acts.push(Act::Send(0, "PONG :another".into()));
            acts.push(Act::Send(0, "PING tok".into()));
            // the form with a server name after the token: the token is still the first parameter
            acts.push(Act::Send(0, "PING tok2 irc.irc".into()));
            // a token with inner and trailing blanks comes back byte for byte
            acts.push(Act::Send(0, "PING :tok 3  ".into()));
            // the empty token is a token
            acts.push(Act::Send(0, "PONG :".into()));
            acts.push(Act::Send(0, "PING :".into()));
            // other traffic: a capability request after registration (no CAP END is owed)
            acts.push(Act::Send(0, "CAP REQ :multi-prefix".into()));
            if self.full {
                acts.push(Act::Send(0, "CAP LS 302".into()));
                acts.push(Act::Send(0, "PONG irc.irc :LALAL".into()));
                acts.push(Act::Send(0, "PING 12345 :some.other.server".into()));
                acts.push(Act::Send(0, "LUSERS".into()));
            }
        }
        acts
    }
    fn focus(&self) -> Focus {
        // client PING must be answered with PONG carrying the same token (Spec)
        Focus { cats: vec![], relays: false, relay_verbs: None, actor: true, actor_codes: Some(vec!["PONG"]), closes: false }
    }
    fn spec_applies(&self, a: &Act) -> bool {
        matches!(a, Act::Send(_, l) if l.starts_with("PING"))
    }
    fn goals(&self) -> Vec<&'static str> {
        vec!["server-ping-seen", "dropped-for-silence", "survived-a-ping", "pong-echo"]
    }
    fn step_oracle(&self, pre: &View, obs: &StepObs, post: &View, goals: &mut BTreeSet<String>) -> Vec<Finding> {
        let mut out = vec![];
        match &obs.act {
            Act::Tick | Act::TickReverse => {
                if pre.life[0] == Life::Live {
                    let pinged = obs.lines[0].iter().any(|l| l.contains(" PING "));
                    // seconds since the registration completed (the prelude may have waited before it)
                    let since_reg = post.now - self.delay;
                    let due = since_reg % self.ping == 0;
                    if pinged {
                        goals.insert("server-ping-seen".into());
                    }
                    // a connection that is being dropped in this very second need not be pinged
                    if due != pinged && post.life[0] == Life::Live {
                        out.push(finding("ping-schedule", format!("{}s after registration (ping_timeout={}): server PING sent={} expected={}", since_reg, self.ping, pinged, due)));
                    }
                    if post.life[0] != Life::Live && !obs.lines[0].iter().any(|l| l.contains("ERROR")) {
                        out.push(finding("drop-without-error", format!("at t={}s the client was disconnected without an ERROR line: {:?}", post.now, obs.lines[0])));
                    }
                }
            }
            Act::Send(_, l) if l.starts_with("PING") => {
                if obs.lines[0].iter().any(|x| x.contains("PONG") && x.contains("tok")) {
                    goals.insert("pong-echo".into());
                }
            }
            _ => {}
        }
        out
    }
    fn state_oracle(&self, _w: &mut World, v: &View, goals: &mut BTreeSet<String>) -> Vec<Finding> {
        let mut out = vec![];
        let (now, outstanding, quit) = self.model(&v.hist);
        if quit {
            return out;
        }
        let live = v.life[0] == Life::Live;
        match outstanding {
            None => {
                if !live {
                    out.push(finding("dropped-live-client", format!("t={}s: the client answered every PING but was disconnected ({:?})", now, v.life[0])));
                } else if now >= self.ping {
                    goals.insert("survived-a-ping".into());
                }
            }
            Some(t0) => {
                let deadline = t0 + self.pong;
                if live && now > deadline + 1 {
                    out.push(finding("not-dropped", format!("t={}s: PING of t={}s is unanswered, pong_timeout={}s, but the client is still connected", now, t0, self.pong)));
                }
                if !live && now < deadline {
                    out.push(finding("dropped-early", format!("t={}s: disconnected although the PING of t={}s could still be answered until t={}s", now, t0, deadline)));
                }
                if !live {
                    goals.insert("dropped-for-silence".into());
                    // clean-up of C06
                    if !v.m.users.is_empty() || v.snap.conns_count != 0 {
                        out.push(finding("timeout-cleanup", format!("after the ping timeout the user is still registered: {:?}, connections counted {}", v.m.users.keys().collect::<Vec<_>>(), v.snap.conns_count)));
                    }
                    if !v.m.chans.is_empty() {
                        out.push(finding("timeout-cleanup", format!("after the ping timeout the channel the client was alone on still exists: {:?}", v.m.chans.keys().collect::<Vec<_>>())));
                    }
                    for (name, msg) in crate::spec::rep_invariants(&v.snap) {
                        out.push(finding("timeout-cleanup", format!("after the ping timeout: {}: {}", name, msg)));
                    }
                }
            }
        }
        out
    }
}

/// "Answers every PING with a PONG carrying the same token", whatever the token's length: a
/// PING line the server accepts (up to its line limit) comes back with the whole token - the
/// reply is longer than the request by the server's prefix and is not cut to the limit.
pub fn case_token_len(n: usize) -> Vec<Finding> {
    let mut tok: String = "abcdefghijklmnopqrstuvwxy".chars().cycle().take(n.saturating_sub(1)).collect();
    tok.push('Z');
    let line = format!("PING :{}", tok);
    let mut w = World::new(Cfg::default().main_config(), 1);
    if let Err(e) = w.register(0, "cli", "cu") {
        return vec![finding("machinery", e.0)];
    }
    w.take_all();
    if let Err(e) = w.send(0, &line) {
        return vec![finding("machinery", e.0)];
    }
    let ls = w.take_lines(0);
    let mut out = vec![];
    let pongs: Vec<crate::canon::Msg> = ls.iter().filter_map(|l| crate::canon::parse_server_line(l)).filter(|m| m.cmd == "PONG").collect();
    if pongs.is_empty() {
        // only a line beyond the limit may go unanswered
        if line.len() + 2 <= 2000 {
            out.push(finding("pong-missing", format!("PING with a token of {} bytes (line of {} bytes) got no PONG: {} reply lines", n, line.len(), ls.len())));
        }
    } else {
        for m in &pongs {
            if m.params.last().map(|s| s.as_str()) != Some(tok.as_str()) {
                out.push(finding("pong-token", format!("PING with a token of {} bytes: the PONG carries {} bytes of it", n, m.params.last().map_or(0, |s| s.len()))));
            }
        }
    }
    // the connection is still served (a line beyond the limit may end it)
    if line.len() + 2 <= 2000 && (w.send(0, "PING :after").is_err() || !w.take_lines(0).iter().any(|l| l.contains("PONG") && l.ends_with(":after"))) {
        out.push(finding("pong-missing", format!("after a PING with a token of {} bytes the connection no longer answers", n)));
    }
    out
}

fn part_token_len(quick: bool) -> crate::run::PartResult {
    let t0 = std::time::Instant::now();
    let mut r = crate::run::PartResult::new("fun:c17-token-length", "E-FUN");
    let mut lens: Vec<usize> = vec![1, 2, 16, 255, 256, 510, 512, 1000, 1500];
    lens.extend(if quick { 1960..=1996 } else { 1900..=2010 });
    let mut answered = 0u64;
    for n in &lens {
        r.evaluations += 1;
        let fs = case_token_len(*n);
        if fs.is_empty() {
            answered += 1;
        }
        for f in fs {
            r.violations.push(crate::bfs::Violation { scenario: "fun:c17-token-length".into(), sig: f.sig, detail: f.detail, history: vec![], transcript: vec![serde_json::json!({"token_len": n}).to_string()] });
        }
    }
    r.states = r.evaluations;
    r.transitions = r.evaluations * 2;
    r.distinct = answered;
    r.traces = r.evaluations;
    r.exhaustive = true;
    r.samples = vec![serde_json::json!({"token_len": 1990, "expect": "PONG with all 1990 bytes"})];
    r.extra = serde_json::json!({"token_lengths": lens.len(), "longest": lens.iter().max()});
    r.wall_s = t0.elapsed().as_secs_f64();
    r
}

pub fn replay_fun(scenario: &str, input: &serde_json::Value) -> Vec<Finding> {
    match scenario {
        "fun:c17-token-length" => case_token_len(input["token_len"].as_u64().unwrap_or(1) as usize),
        _ => vec![],
    }
}

pub fn plan(quick: bool) -> Plan {
    let mut parts = vec![];
    for ping in [1u64, 2, 3] {
        for pong in [1u64, 2, 3] {
            // long enough for: first PING answered, second PING ignored, deadline passed by more than the slack
            let horizon = if quick { (2 * ping + pong + 3) as usize } else { (2 * ping + 2 * pong + 4) as usize };
            parts.push(Part::Bfs(Box::new(KeepAlive { ping, pong, full: !quick, delay: 0 }), lim(horizon, 2_000_000, if quick { 5.0 } else { 200.0 })));
        }
    }
    // registration completed 1 s (and, for ping_timeout 3, 2 s) after the connection was opened:
    // the schedule counts from the registration, not from the accept
    for (ping, pong, delay) in [(2u64, 1u64, 1u64), (3, 1, 1), (3, 2, 2), (2, 2, 1)] {
        // long enough for: first PING answered, second PING ignored, deadline passed by more than the slack
            let horizon = if quick { (2 * ping + pong + 3) as usize } else { (2 * ping + 2 * pong + 4) as usize };
        parts.push(Part::Bfs(Box::new(KeepAlive { ping, pong, full: !quick, delay }), lim(horizon, 2_000_000, if quick { 5.0 } else { 200.0 })));
    }
    parts.push(Part::Custom("fun:c17-token-length".into(), Box::new(move || part_token_len(quick))));
    Plan {
        property: "C17".into(),
        rule: "E-SEQ BFS with a virtual clock for every (ping_timeout, pong_timeout) in {1,2,3}^2 (including equal and larger pong_timeout): per virtual second the client may let time pass, answer with PONG (right or wrong token), send PING tok or other traffic; every response pattern up to the horizon. The server's own timer tasks run on the paused tokio clock. Oracle: client PING => PONG with the token; a server PING at every multiple of ping_timeout; a client with no unanswered PING is never disconnected; from the first unanswered PING at t0 the client is sent ERROR and disconnected no earlier than t0+pong_timeout and no later than t0+pong_timeout+1s; afterwards no user and no counted connection remain".into(),
        assumptions: vec!["a PONG with any token counts as an answer (the server ignores the token)".into(), "1 s of scheduling slack".into()],
        parts,
    }
}
