//! C20 - configuration is validated at start-up and governs behaviour as documented.

use super::common::*;
use super::threads;
use crate::bfs::Violation;
use crate::check::Finding;
use crate::config::{Cli, MainConfig};
use crate::fun::par_ranges;
use crate::run::{Part, PartResult, Plan};
use crate::scn::hash_of;
use crate::utils::{argon2_hash_password, argon2_verify_password, validate_password_hash};
use crate::world::{guarded, Life, World};
use clap::Parser;
use serde_json::{json, Value};
use std::collections::BTreeSet;
use std::time::Instant;

fn fv(scn: &str, f: Finding, input: Value) -> Violation {
    Violation { scenario: scn.to_string(), sig: f.sig, detail: f.detail, history: vec![], transcript: vec![input.to_string()] }
}

fn tmp_dir() -> String {
    let d = format!("{}/target/c20tmp", std::env::var("VERIF_DIR").unwrap_or_else(|_| "/verif".into()));
    let _ = std::fs::create_dir_all(&d);
    d
}

// ---------------------------------------------------------------------------
// (a) validation lattice

#[derive(Clone, Debug)]
struct Opt {
    label: &'static str,
    text: String,
    valid: bool,
}

fn o(label: &'static str, text: &str, valid: bool) -> Opt {
    Opt { label, text: text.to_string(), valid }
}

struct Menus {
    name: Vec<Opt>,
    password: Vec<Opt>,
    user: Vec<Opt>,
    oper: Vec<Opt>,
    chan: Vec<Opt>,
    tls: Vec<Opt>,
    cli: Vec<(&'static str, Vec<String>, bool)>,
}

fn menus() -> Menus {
    let good = hash_of("secret");
    let wrong_len = "QUJDREVGR0g"; // valid base64, 8 bytes
    let long_nick = "n".repeat(201);
    Menus {
        name: vec![o("dotted", "name = \"irc.example\"\n", true), o("undotted", "name = \"ircserver\"\n", false)],
        password: vec![
            o("absent", "", true),
            o("valid", &format!("password = \"{}\"\n", good), true),
            o("bad-base64", "password = \"not base64 !!\"\n", false),
            o("wrong-length", &format!("password = \"{}\"\n", wrong_len), false),
        ],
        user: vec![
            o("none", "", true),
            o("valid", &format!("[[users]]\nname = \"joe\"\nnick = \"joe\"\npassword = \"{}\"\n", good), true),
            o("valid-nopass", "[[users]]\nname = \"joe\"\nnick = \"joe\"\n", true),
            o("name-chan", "[[users]]\nname = \"#x\"\nnick = \"joe\"\n", false),
            o("nick-dot", "[[users]]\nname = \"joe\"\nnick = \"a.b\"\n", false),
            o("nick-201", &format!("[[users]]\nname = \"joe\"\nnick = \"{}\"\n", long_nick), false),
            o("password-5", "[[users]]\nname = \"joe\"\nnick = \"joe\"\npassword = \"abcde\"\n", false),
            o("password-bad", "[[users]]\nname = \"joe\"\nnick = \"joe\"\npassword = \"!!!!!!!!!!\"\n", false),
        ],
        oper: vec![
            o("none", "", true),
            o("valid", &format!("[[operators]]\nname = \"op\"\npassword = \"{}\"\n", good), true),
            o("name-colon", &format!("[[operators]]\nname = \"o:p\"\npassword = \"{}\"\n", good), false),
            o("password-bad", "[[operators]]\nname = \"op\"\npassword = \"zzz\"\n", false),
        ],
        chan: vec![
            o("none", "", true),
            o("valid", "[[channels]]\nname = \"#c\"\n[channels.modes]\ninvite_only = false\nmoderated = false\nsecret = false\nprotected_topic = false\nno_external_messages = false\n", true),
            o("no-sigil", "[[channels]]\nname = \"c\"\n[channels.modes]\ninvite_only = false\nmoderated = false\nsecret = false\nprotected_topic = false\nno_external_messages = false\n", false),
            o("comma", "[[channels]]\nname = \"#a,b\"\n[channels.modes]\ninvite_only = false\nmoderated = false\nsecret = false\nprotected_topic = false\nno_external_messages = false\n", false),
        ],
        tls: vec![o("absent", "", true), o("both", "[tls]\ncert_file = \"cert.crt\"\ncert_key_file = \"cert_key.crt\"\n", true), o("cert-only", "[tls]\ncert_file = \"cert.crt\"\n", false)],
        cli: vec![
            ("none", vec![], true),
            ("cert-only", vec!["-C".into(), "c.crt".into()], false),
            ("key-only", vec!["-K".into(), "k.crt".into()], false),
            ("cert+key", vec!["-C".into(), "c.crt".into(), "-K".into(), "k.crt".into()], true),
            ("name-dotted", vec!["-n".into(), "cli.example".into()], true),
            ("name-undotted", vec!["-n".into(), "cliname".into()], false),
            ("network", vec!["-N".into(), "CliNet".into()], true),
            ("port", vec!["-p".into(), "7000".into()], true),
            ("listen", vec!["-l".into(), "127.0.0.2".into()], true),
            ("logfile", vec!["-L".into(), "x.log".into()], true),
            ("dns", vec!["-d".into()], true),
        ],
    }
}

fn head(name: &Opt, password: &Opt) -> String {
    format!(
        "{}admin_info = \"admin\"\ninfo = \"info\"\nlisten = \"127.0.0.1\"\nport = 6667\n{}network = \"FileNet\"\nping_timeout = 100\npong_timeout = 30\nmotd = \"hello\"\ndns_lookup = false\nlog_level = \"INFO\"\n",
        name.text, password.text
    )
}

fn part_lattice() -> PartResult {
    let t0 = Instant::now();
    let mut r = PartResult::new("fun:c20-validation", "E-FUN");
    let m = menus();
    let dims = [m.name.len(), m.password.len(), m.user.len(), m.oper.len(), m.chan.len(), m.tls.len(), m.cli.len()];
    let n: u64 = dims.iter().map(|x| *x as u64).product();
    let dir = tmp_dir();
    let res = par_ranges(n, threads(), 256, |a, b| {
        let mut viol = vec![];
        let mut oks = 0u64;
        let path = format!("{}/lattice-{}.toml", dir, a);
        for idx in a..b {
            let mut k = idx;
            let mut pick = [0usize; 7];
            for d in 0..7 {
                pick[d] = (k % dims[d] as u64) as usize;
                k /= dims[d] as u64;
            }
            let (nm, pw, us, op, ch, tl, cl) = (&m.name[pick[0]], &m.password[pick[1]], &m.user[pick[2]], &m.oper[pick[3]], &m.chan[pick[4]], &m.tls[pick[5]], &m.cli[pick[6]]);
            // TOML: top-level keys first, then tables
            let text = format!("{}\n[default_user_modes]\ninvisible = false\noper = false\nlocal_oper = false\nregistered = false\nwallops = false\n{}{}{}{}", head(nm, pw), tl.text, op.text, us.text, ch.text);
            if std::fs::write(&path, &text).is_err() {
                continue;
            }
            let mut args: Vec<String> = vec!["simple-irc-server".into(), "-c".into(), path.clone()];
            args.extend(cl.1.iter().cloned());
            // a dotted -n rescues an undotted file name and vice versa: the effective name counts
            let name_ok = match cl.0 {
                "name-dotted" => true,
                "name-undotted" => false,
                _ => nm.valid,
            };
            let want_ok = name_ok && pw.valid && us.valid && op.valid && ch.valid && tl.valid && (cl.2 || cl.0 == "name-undotted");
            let got = guarded(|| match Cli::try_parse_from(args.iter()) {
                Err(e) => Err(format!("cli: {}", e)),
                Ok(cli) => MainConfig::new(cli).map_err(|e| e.to_string()),
            });
            let labels = json!({"name": nm.label, "password": pw.label, "user": us.label, "operator": op.label, "channel": ch.label, "tls": tl.label, "cli": cl.0});
            match got {
                Err(p) => viol.push(fv("fun:c20-validation", finding("config:panic", format!("MainConfig::new aborted for {}: {}", labels, p)), labels)),
                Ok(res) => {
                    if res.is_ok() {
                        oks += 1;
                    }
                    if res.is_ok() != want_ok {
                        viol.push(fv("fun:c20-validation", finding("config:validation", format!("configuration {} should be {} but MainConfig::new returned {:?}", labels, if want_ok { "accepted" } else { "rejected" }, res.as_ref().map(|_| "Ok").map_err(|e| e.clone()))), labels.clone()));
                    }
                    if let Ok(cfg) = res {
                        // command-line options override the file
                        let mut bad = vec![];
                        match cl.0 {
                            "name-dotted" if cfg.name != "cli.example" => bad.push("name"),
                            "network" if cfg.network != "CliNet" => bad.push("network"),
                            "port" if cfg.port != 7000 => bad.push("port"),
                            "listen" if cfg.listen.to_string() != "127.0.0.2" => bad.push("listen"),
                            "logfile" if cfg.log_file.as_deref() != Some("x.log") => bad.push("log_file"),
                            "dns" if !cfg.dns_lookup => bad.push("dns_lookup"),
                            "cert+key" if cfg.tls.as_ref().map(|t| (t.cert_file.as_str(), t.cert_key_file.as_str())) != Some(("c.crt", "k.crt")) => bad.push("tls"),
                            _ => {}
                        }
                        if cl.0 != "name-dotted" && cfg.name != "irc.example" {
                            bad.push("name(file)");
                        }
                        if cl.0 != "network" && cfg.network != "FileNet" {
                            bad.push("network(file)");
                        }
                        if !bad.is_empty() {
                            viol.push(fv("fun:c20-validation", finding("config:override", format!("configuration {}: fields {:?} do not carry the expected value", labels, bad)), labels));
                        }
                    }
                }
            }
        }
        let _ = std::fs::remove_file(&path);
        (viol, oks)
    });
    let mut oks = 0;
    for (v, k) in res {
        r.violations.extend(v);
        oks += k;
    }
    r.violations.truncate(40);
    r.evaluations = n;
    r.states = n;
    r.transitions = n;
    r.distinct = n;
    r.traces = n;
    r.exhaustive = true;
    r.samples = vec![json!({"name":"undotted","password":"valid","user":"nick-201","operator":"none","channel":"valid","tls":"absent","cli":"name-dotted","expected":"rejected (nick too long)"})];
    r.extra = json!({"configurations": n, "accepted": oks, "rejected": n - oks, "menus": {"name":2,"password":4,"user":8,"operator":4,"channel":4,"tls":3,"cli":11}});
    if oks == 0 || oks == n {
        r.machinery = Some("vacuous: every configuration got the same verdict".into());
    }
    r.wall_s = t0.elapsed().as_secs_f64();
    r
}

// ---------------------------------------------------------------------------
// documented keys are live: removing a key documented in config-example.toml
// must change the parsed configuration

fn leaf_paths(v: &toml::Value, prefix: Vec<String>, out: &mut Vec<Vec<String>>) {
    match v {
        toml::Value::Table(t) => {
            for (k, x) in t {
                let mut p = prefix.clone();
                p.push(k.clone());
                leaf_paths(x, p, out);
            }
        }
        toml::Value::Array(a) if a.iter().all(|x| x.is_table()) && !a.is_empty() => {
            for (i, x) in a.iter().enumerate() {
                let mut p = prefix.clone();
                p.push(format!("[{}]", i));
                leaf_paths(x, p, out);
            }
        }
        _ => out.push(prefix),
    }
}

fn remove_path(v: &mut toml::Value, path: &[String]) {
    if path.is_empty() {
        return;
    }
    let k = &path[0];
    if path.len() == 1 {
        if let toml::Value::Table(t) = v {
            t.remove(k);
        }
        return;
    }
    let next = if k.starts_with('[') {
        let i: usize = k[1..k.len() - 1].parse().unwrap_or(0);
        match v {
            toml::Value::Array(a) => a.get_mut(i),
            _ => None,
        }
    } else {
        match v {
            toml::Value::Table(t) => t.get_mut(k),
            _ => None,
        }
    };
    if let Some(n) = next {
        remove_path(n, &path[1..]);
    }
}

pub fn example_findings() -> (Vec<Finding>, usize) {
    let mut out = vec![];
    // the tree under check (./check exports VERIF_REPO; /repo for every registered command)
    let repo = std::env::var("VERIF_REPO").unwrap_or_else(|_| "/repo".into());
    let text = match std::fs::read_to_string(format!("{}/config-example.toml", repo)) {
        Ok(t) => t,
        Err(e) => return (vec![finding("machinery", format!("cannot read config-example.toml: {}", e))], 0),
    };
    let dir = tmp_dir();
    let parse = |txt: &str, tag: &str| -> Result<String, String> {
        let path = format!("{}/example-{}.toml", dir, tag);
        std::fs::write(&path, txt).map_err(|e| e.to_string())?;
        let cli = Cli::try_parse_from(["simple-irc-server", "-c", path.as_str()]).map_err(|e| e.to_string())?;
        let r = MainConfig::new(cli).map(|c| format!("{:?}", c)).map_err(|e| e.to_string());
        let _ = std::fs::remove_file(&path);
        r
    };
    let base = match parse(&text, "base") {
        Ok(b) => b,
        Err(e) => return (vec![finding("example:rejected", format!("config-example.toml as shipped is rejected: {}", e))], 0),
    };
    let val: toml::Value = match text.parse() {
        Ok(v) => v,
        Err(e) => return (vec![finding("machinery", format!("toml: {}", e))], 0),
    };
    let mut paths = vec![];
    leaf_paths(&val, vec![], &mut paths);
    for (k, p) in paths.iter().enumerate() {
        let mut v2 = val.clone();
        remove_path(&mut v2, p);
        let txt = toml::to_string(&v2).unwrap_or_default();
        match parse(&txt, &format!("{}", k)) {
            Ok(d) => {
                if d == base {
                    out.push(finding("example:dead-key", format!("the documented key {} of config-example.toml is ignored by the server (removing it changes nothing)", p.join("."))));
                }
            }
            Err(_) => {} // a required key: removing it is rejected, so it is live
        }
    }
    (out, paths.len())
}

fn part_example() -> PartResult {
    let t0 = Instant::now();
    let mut r = PartResult::new("fun:c20-example", "E-FUN");
    let (fs, n) = example_findings();
    for f in fs {
        r.violations.push(fv("fun:c20-example", f, json!({})));
    }
    r.evaluations = n as u64 + 1;
    r.states = r.evaluations;
    r.transitions = r.evaluations;
    r.distinct = r.evaluations;
    r.traces = r.evaluations;
    r.exhaustive = true;
    r.samples = vec![json!({"check":"each leaf key of config-example.toml is removed in turn; the parsed MainConfig (Debug rendering) must change or the file must be rejected"})];
    r.extra = json!({"documented_leaf_keys": n});
    r.wall_s = t0.elapsed().as_secs_f64();
    r
}

// ---------------------------------------------------------------------------
// (c) hashing

fn part_hash() -> PartResult {
    let t0 = Instant::now();
    let mut r = PartResult::new("fun:c20-hash", "E-FUN");
    let long = "a".repeat(100);
    let pws: Vec<&str> = vec!["", "a", "b", "ab", "ba", "a b", " a", "a ", "é", "e", "A", "aa", long.as_str(), "pass:word", "p\tq", "0", "00", "secret", "Secret", "secre"];
    let hashes: Vec<String> = pws.iter().map(|p| argon2_hash_password(p)).collect();
    for (i, h) in hashes.iter().enumerate() {
        if validate_password_hash(h).is_err() {
            r.violations.push(fv("fun:c20-hash", finding("hash:invalid", format!("hash generated for {:?} does not pass validate_password_hash", pws[i])), json!({"password": pws[i]})));
        }
    }
    let n = (pws.len() * pws.len()) as u64;
    let res = par_ranges(n, threads(), 8, |a, b| {
        let mut v = vec![];
        for k in a..b {
            let (i, j) = ((k as usize) / pws.len(), (k as usize) % pws.len());
            let ok = argon2_verify_password(pws[j], &hashes[i]).is_ok();
            if ok != (pws[i] == pws[j]) {
                v.push(fv("fun:c20-hash", finding("hash:verify", format!("verify({:?}, hash({:?})) = {}", pws[j], pws[i], ok)), json!({"p": pws[i], "q": pws[j]})));
            }
        }
        v
    });
    for v in res {
        r.violations.extend(v);
    }
    r.evaluations = n + pws.len() as u64;
    r.states = r.evaluations;
    r.transitions = r.evaluations;
    r.distinct = r.evaluations;
    r.traces = r.evaluations;
    r.exhaustive = true;
    r.samples = vec![json!({"p":"a b","q":"a b","expected":true}), json!({"p":"secret","q":"Secret","expected":false})];
    r.extra = json!({"passwords": pws.len()});
    r.wall_s = t0.elapsed().as_secs_f64();
    r
}

// ---------------------------------------------------------------------------
// (b) behaviour on the wire

pub fn case_behaviour(name: Option<&str>, network: Option<&str>, motd: Option<&str>, max_joins: Option<usize>, defm: (bool, bool, bool, bool, bool), password: Option<&str>) -> Vec<Finding> {
    let mut out = vec![];
    let cfg = crate::scn::Cfg {
        name: name.map(|s| s.to_string()),
        network: network.map(|s| s.to_string()),
        motd: motd.map(|s| s.to_string()),
        max_joins,
        def_modes: defm,
        password: password.map(|s| s.to_string()),
        ..Default::default()
    };
    let server = name.unwrap_or("irc.irc");
    let net = network.unwrap_or("IRCnetwork");
    let md = motd.unwrap_or("Hello, world!");
    let mut w = World::new(cfg.main_config(), 2);
    macro_rules! m {
        ($e:expr) => {
            match $e {
                Ok(v) => v,
                Err(e) => return vec![finding("behaviour:stalled", e.0)],
            }
        };
    }
    m!(w.connect(0));
    if let Some(p) = password {
        // a wrong password first on another connection: refused, and it is the hash of
        // exactly this password that is accepted
        m!(w.connect(1));
        m!(w.send(1, &format!("PASS :{}x", p)));
        m!(w.send(1, "NICK other"));
        m!(w.send(1, "USER ou 0 * :r"));
        let ls = w.take_lines(1);
        if !ls.iter().any(|l| l.contains(" 464 ")) || w.conns[1].life == Life::Live {
            out.push(finding("behaviour:password", format!("a wrong server password was not refused: {:?}", ls)));
        }
        m!(w.send(0, &format!("PASS :{}", p)));
    }
    m!(w.send(0, "NICK neo"));
    m!(w.send(0, "USER nu 0 * :Real"));
    let ls = w.take_lines(0);
    let find = |code: &str| ls.iter().find(|l| l.starts_with(&format!(":{} {} ", server, code)));
    match find("001") {
        Some(l) if l.contains(net) && l.contains("neo") => {}
        other => out.push(finding("behaviour:001", format!("welcome line does not name network {:?} from server {:?}: {:?}", net, server, other))),
    }
    for code in ["002", "004", "375"] {
        match find(code) {
            Some(l) if l.contains(server) => {}
            other => out.push(finding("behaviour:name", format!("{} does not carry the server name {:?}: {:?}", code, server, other))),
        }
    }
    if !ls.iter().any(|l| l.contains(" 005 ") && l.contains(&format!("NETWORK={}", net))) {
        out.push(finding("behaviour:005", format!("ISUPPORT does not advertise NETWORK={}", net)));
    }
    let chanlimit = ls.iter().any(|l| l.contains(" 005 ") && l.contains("CHANLIMIT="));
    if chanlimit != max_joins.is_some() || max_joins.map_or(false, |mj| !ls.iter().any(|l| l.contains(&format!("CHANLIMIT=&#:{}", mj)))) {
        out.push(finding("behaviour:chanlimit", format!("ISUPPORT CHANLIMIT present={} for max_joins={:?}", chanlimit, max_joins)));
    }
    match find("372") {
        Some(l) if l.contains(md) => {}
        other => out.push(finding("behaviour:motd", format!("MOTD line does not carry {:?}: {:?}", md, other))),
    }
    let want_modes: String = std::iter::once('+').chain([(defm.0, 'i'), (defm.1, 'o'), (defm.2, 'O'), (defm.3, 'r'), (defm.4, 'w')].iter().filter(|x| x.0).map(|x| x.1)).collect();
    match find("221") {
        Some(l) if l.trim_end().ends_with(&want_modes) => {}
        other => out.push(finding("behaviour:modes", format!("default user modes {:?} not reported by 221: {:?}", want_modes, other))),
    }
    // default modes take effect
    let snap = w.snapshot();
    if let Some(u) = snap.users.iter().find(|u| u.nick == "neo") {
        if (u.invisible, u.oper, u.local_oper, u.registered, u.wallops) != defm {
            out.push(finding("behaviour:modes", format!("user modes {:?} differ from configured defaults {:?}", (u.invisible, u.oper, u.local_oper, u.registered, u.wallops), defm)));
        }
    } else {
        out.push(finding("behaviour:register", "registration with the right settings did not create the user".into()));
    }
    // max_joins enforced
    if let Some(mj) = max_joins {
        // max_joins - 1 single JOINs, then one JOIN naming two channels: the quota is
        // crossed inside the list
        for k in 0..mj.saturating_sub(1) {
            m!(w.send(0, &format!("JOIN #j{}", k)));
        }
        m!(w.send(0, &format!("JOIN #j{},#j{}", mj.saturating_sub(1), mj)));
        // and one more at the quota
        m!(w.send(0, "JOIN #jextra"));
        let ls = w.take_lines(0);
        let joined = ls.iter().filter(|l| l.contains(" JOIN #j")).count();
        let refused = ls.iter().filter(|l| l.contains(" 405 ")).count();
        if joined != mj || refused < 2 {
            out.push(finding("behaviour:max_joins", format!("max_joins={}: {} joins succeeded, {} refused with 405 (expected {} and at least 2)", mj, joined, refused, mj)));
        }
    }
    if w.conns.iter().any(|c| matches!(c.life, Life::Panicked(_))) {
        out.push(finding("behaviour:panic", "a connection task aborted".into()));
    }
    out
}

fn part_behaviour() -> PartResult {
    let t0 = Instant::now();
    let mut r = PartResult::new("fun:c20-behaviour", "E-FUN");
    let names = [None, Some("srv.example.org")];
    let nets = [None, Some("MyNet")];
    let motds = [None, Some("custom motd text")];
    let mjs = [None, Some(1usize), Some(3)];
    let defs = [(false, false, false, false, false), (true, false, false, false, true), (false, true, false, true, false), (false, false, true, false, false)];
    let pws = [None, Some("pa ss"), Some("é")];
    let mut cases = vec![];
    for n in names {
        for nw in nets {
            for m in motds {
                for mj in mjs {
                    for d in defs {
                        for p in pws {
                            cases.push((n, nw, m, mj, d, p));
                        }
                    }
                }
            }
        }
    }
    let n = cases.len() as u64;
    let res = par_ranges(n, threads(), 4, |a, b| {
        let mut v = vec![];
        for i in a..b {
            let c = cases[i as usize];
            for f in case_behaviour(c.0, c.1, c.2, c.3, c.4, c.5) {
                v.push(fv("fun:c20-behaviour", f, json!({"name": c.0, "network": c.1, "motd": c.2, "max_joins": c.3, "default_modes": [c.4 .0, c.4 .1, c.4 .2, c.4 .3, c.4 .4], "password": c.5})));
            }
        }
        v
    });
    for v in res {
        r.violations.extend(v);
    }
    r.violations.truncate(40);
    r.evaluations = n;
    r.states = n;
    r.transitions = n;
    r.distinct = n;
    r.traces = n;
    r.exhaustive = true;
    r.samples = vec![json!({"name":"srv.example.org","network":"MyNet","motd":"custom motd text","max_joins":1,"default_modes":"+iw","password":"pa ss"})];
    r.extra = json!({"configurations": n});
    r.wall_s = t0.elapsed().as_secs_f64();
    r
}

// ---------------------------------------------------------------------------
// (e) the production binary itself (thorough tier): -g, start-up verdicts

fn part_process() -> PartResult {
    use std::io::Read;
    use std::process::{Command, Stdio};
    let t0 = Instant::now();
    let mut r = PartResult::new("fun:c20-process", "E-FUN");
    let (bin, dir) = crate::props::bind_paths();
    if !std::path::Path::new(&bin).exists() {
        r.machinery = Some(format!("production binary {} not built", bin));
        return r;
    }
    // -g prints a hash that accepts exactly the password it was generated from
    for pw in ["secret", "a b", "é", "x"] {
        r.evaluations += 1;
        let out = Command::new(&bin).args(["-g", "-P", pw]).output();
        match out {
            Ok(o) if o.status.success() => {
                let txt = String::from_utf8_lossy(&o.stdout).to_string();
                let hash = txt.trim().rsplit(' ').next().unwrap_or("").to_string();
                let ok = argon2_verify_password(pw, &hash).is_ok();
                let other = argon2_verify_password(&format!("{}x", pw), &hash).is_ok();
                if !ok || other || validate_password_hash(&hash).is_err() {
                    r.violations.push(fv("fun:c20-process", finding("process:genhash", format!("'-g -P {:?}' printed {:?}: accepts own password={}, accepts another={}", pw, txt.trim(), ok, other)), json!({"pw": pw})));
                }
            }
            other => r.violations.push(fv("fun:c20-process", finding("process:genhash", format!("'-g -P {:?}' failed: {:?}", pw, other.map(|o| o.status))), json!({"pw": pw}))),
        }
    }
    // start-up: invalid configurations exit with an error and never listen; a valid one serves
    let m = menus();
    let valid_head = head(&m.name[0], &m.password[0]);
    let tail = "\n[default_user_modes]\ninvisible = false\noper = false\nlocal_oper = false\nregistered = false\nwallops = false\n";
    let cases: Vec<(&str, String, Vec<String>, bool)> = vec![
        ("valid", format!("{}{}", valid_head, tail), vec![], true),
        ("undotted-name", format!("{}{}", head(&m.name[1], &m.password[0]), tail), vec![], false),
        ("bad-password-hash", format!("{}{}", head(&m.name[0], &m.password[2]), tail), vec![], false),
        ("bad-user-nick", format!("{}{}{}", valid_head, tail, m.user[4].text), vec![], false),
        ("bad-channel", format!("{}{}{}", valid_head, tail, m.chan[2].text), vec![], false),
        ("cli-cert-only", format!("{}{}", valid_head, tail), vec!["-C".into(), "c.crt".into()], false),
        ("cli-undotted-name", format!("{}{}", valid_head, tail), vec!["-n".into(), "nodot".into()], false),
        ("cli-dotted-name-rescues", format!("{}{}", head(&m.name[1], &m.password[0]), tail), vec!["-n".into(), "ok.example".into()], true),
    ];
    for (k, (label, text, extra, want_serving)) in cases.iter().enumerate() {
        r.evaluations += 1;
        let port = 23100 + k as u16;
        let path = format!("{}/proc-{}.toml", dir, k);
        let _ = std::fs::write(&path, text.replace("port = 6667", &format!("port = {}", port)));
        let mut args = vec!["-c".to_string(), path.clone()];
        args.extend(extra.iter().cloned());
        let child = Command::new(&bin).args(&args).stdin(Stdio::null()).stdout(Stdio::null()).stderr(Stdio::piped()).spawn();
        let mut child = match child {
            Ok(c) => c,
            Err(e) => {
                r.machinery = Some(format!("cannot spawn the production binary: {}", e));
                break;
            }
        };
        // wait up to 1.5 s for it to listen or to exit
        let mut serving = false;
        let mut exited = None;
        for _ in 0..150 {
            if let Ok(Some(st)) = child.try_wait() {
                exited = Some(st);
                break;
            }
            if std::net::TcpStream::connect(("127.0.0.1", port)).is_ok() {
                serving = true;
                break;
            }
            std::thread::sleep(std::time::Duration::from_millis(10));
        }
        let mut welcome = true;
        if serving {
            // a client is served: registration gets 001 carrying the configured/overridden name
            if let Ok(mut sck) = std::net::TcpStream::connect(("127.0.0.1", port)) {
                use std::io::Write;
                let _ = sck.write_all(b"NICK proc\r\nUSER pu 0 * :r\r\n");
                let _ = sck.set_read_timeout(Some(std::time::Duration::from_millis(300)));
                let mut buf = vec![0u8; 8192];
                let mut got = String::new();
                while let Ok(n) = sck.read(&mut buf) {
                    if n == 0 {
                        break;
                    }
                    got.push_str(&String::from_utf8_lossy(&buf[..n]));
                    if got.contains(" 221 ") {
                        break;
                    }
                }
                let name = if *label == "cli-dotted-name-rescues" { "ok.example" } else { "irc.example" };
                welcome = got.contains(&format!(":{} 001 proc", name));
            }
        }
        let _ = child.kill();
        let st = child.wait().ok();
        let failed_exit = exited.map_or(false, |s| !s.success());
        if *want_serving {
            if !serving || !welcome {
                r.violations.push(fv("fun:c20-process", finding("process:start", format!("valid configuration {:?}: serving={} welcome-ok={} exit={:?}", label, serving, welcome, exited)), json!({"case": label})));
            }
        } else if serving || !failed_exit {
            r.violations.push(fv("fun:c20-process", finding("process:start", format!("invalid configuration {:?}: the server should exit with an error instead of serving (serving={}, exit={:?}/{:?})", label, serving, exited, st)), json!({"case": label})));
        }
        let _ = std::fs::remove_file(&path);
    }
    r.states = r.evaluations;
    r.transitions = r.evaluations;
    r.distinct = r.evaluations;
    r.traces = r.evaluations;
    r.exhaustive = true;
    r.samples = vec![json!({"case":"cli-cert-only","expected":"process exits with an error, nothing listens"})];
    r.extra = json!({"binary": bin});
    r.wall_s = t0.elapsed().as_secs_f64();
    r
}

/// (d) TLS on versus off for the same client scripts.
fn part_tls() -> PartResult {
    use crate::bfs::Act;
    use crate::scn::{part, ChatScn};
    let mut scn = ChatScn::new("c20-tls", crate::scn::Cfg::default(), vec![part(0, "alice", "alicia", "au"), part(1, "bob", "bobby", "bu")], 0);
    scn.alphabet = vec!["JOIN #x", "PRIVMSG #x :hi there", "PRIVMSG {peer} :psst", "WHOIS {peer}", "NICK {alt}", "TOPIC #x :t", "PART #x", "QUIT"];
    let mut pre = vec![];
    for p in &scn.parts {
        pre.push(Act::Connect(p.slot));
        pre.push(Act::Send(p.slot, format!("NICK {}", p.nick)));
        pre.push(Act::Send(p.slot, format!("USER {} 8 * :Real {}", p.user, p.user)));
    }
    let v = std::env::var("VERIF_DIR").unwrap_or_else(|_| "/verif".into());
    let bin = format!("{}/target/bind-tls/release/simple-irc-server", v);
    let (_, dir) = crate::props::bind_paths();
    let cfg = scn.cfg.clone();
    let mut r = crate::bind::run_tls_compare("bind:c20-tls", &scn, &cfg, &pre, 2, 400, &bin, &dir);
    if r.machinery.is_none() && r.violations.is_empty() && r.extra["rpl_whoissecure_seen_over_tls"] != json!(true) {
        r.machinery = Some("vacuous: no 671 seen over TLS, was the TLS transport really used?".into());
    }
    r
}

pub fn replay_fun(scenario: &str, input: &Value) -> Vec<Finding> {
    match scenario {
        "fun:c20-example" => example_findings().0,
        "fun:c20-predefined-lists" => {
            // the configuration is identified by its label (the script list is fixed)
            let label = input["cfg"]["label"].as_str().unwrap_or("");
            let slot = input["slot"].as_u64().unwrap_or(0) as usize;
            let line = input["line"].as_str().unwrap_or("");
            match predefined_lists_scripts().into_iter().find(|sc| sc.cfg.label == label && sc.slot == slot && sc.line == line) {
                Some(sc) => super::chat::run_script(&sc, &super::chat::c08_enforce_focus()).0,
                None => vec![Finding { sig: "machinery".into(), detail: format!("no such predefined-lists script: {:?}", label) }],
            }
        }
        "fun:c20-behaviour" => {
            let d = &input["default_modes"];
            let b = |i: usize| d[i].as_bool().unwrap_or(false);
            case_behaviour(input["name"].as_str(), input["network"].as_str(), input["motd"].as_str(), input["max_joins"].as_u64().map(|x| x as usize), (b(0), b(1), b(2), b(3), b(4)), input["password"].as_str())
        }
        _ => vec![],
    }
}

/// "Predefined channels ... govern behaviour": the configured ban / exception / invite-exception
/// lists decide admission and speech exactly like lists set by MODE - also a list that is
/// written but empty (`exception = []`) and lists with several masks.
pub fn predefined_lists_scripts() -> Vec<super::chat::Script> {
    use crate::scn::CfgChan;
    let mut out = vec![];
    let users = || vec![(0usize, "alice".to_string(), "au".to_string()), (1, "evil".to_string(), "eu".to_string()), (2, "evil2".to_string(), "fu".to_string())];
    let shapes: Vec<(Vec<&str>, Vec<&str>, Vec<&str>, bool, &str)> = vec![
        // (ban, exception, invite exception, lists written even when empty, flags)
        (vec!["evil*!*@*"], vec![], vec![], false, ""),
        (vec!["evil*!*@*"], vec![], vec![], true, ""),
        (vec!["evil*!*@*"], vec!["evil!*@*"], vec![], false, ""),
        (vec!["evil*!*@*"], vec!["evil!*@*", "zed!*@*"], vec![], false, ""),
        (vec!["evil*!*@*"], vec!["zed!*@*", "evil2!*@*"], vec![], true, ""),
        (vec![], vec![], vec![], true, ""),
        (vec![], vec![], vec!["evil!*@*"], false, "i"),
        (vec![], vec![], vec![], true, "i"),
        (vec![], vec![], vec!["zed!*@*", "evil2!*@*"], true, "i"),
        (vec!["evil*!*@*"], vec!["evil!*@*"], vec!["evil*!*@*"], true, "im"),
    ];
    for (ban, exc, inv, present, flags) in shapes {
        let ch = CfgChan {
            name: "#p".into(),
            ban: ban.iter().map(|s| s.to_string()).collect(),
            exception: exc.iter().map(|s| s.to_string()).collect(),
            invite_exception: inv.iter().map(|s| s.to_string()).collect(),
            operators: vec!["alice".into()],
            flags: flags.into(),
            empty_lists_present: present,
            ..Default::default()
        };
        let cfg = crate::scn::Cfg { channels: vec![ch], label: format!("predefined #p ban={:?} exception={:?} invex={:?} written-when-empty={} flags={}", ban, exc, inv, present, flags), ..Default::default() };
        for (slot, line) in [(1usize, "JOIN #p"), (2, "JOIN #p"), (1, "PRIVMSG #p :from outside")] {
            out.push(super::chat::Script { cfg: cfg.clone(), users: users(), prelude: vec![(0, "JOIN #p".into())], slot, line: line.into() });
        }
    }
    out
}

pub fn predefined_user_contended(full: bool) -> crate::scn::ChatScn {
    use crate::check::Cat;
    let mut s = super::ghost::ghost_scn("c20-predefined-user-contended", &[Cat::UserExistence, Cat::UserIdentity, Cat::UserModes], full);
    s.cfg.users = vec![("uu".into(), "bob".into(), None, None)];
    s.cfg.label = "predefined user uu".into();
    s.parts[1].user = "uu";
    s.extra_actions = Some(Box::new(|scn, v| {
        let mut acts = vec![];
        for p in &scn.parts {
            if p.late && v.life[p.slot] == crate::world::Life::Live && v.nick(p.slot).is_none() {
                acts.push(crate::bfs::Act::Send(p.slot, format!("NICK {}", p.alt)));
                acts.push(crate::bfs::Act::Send(p.slot, "USER guest 0 * :Guest".into()));
            }
        }
        acts
    }));
    for slot in [1usize, 2] {
        s.probes_for.push((slot, "MODE {me}"));
        // only the predefined user may (re)gain the registered mode
        s.alphabet_for.push((slot, "MODE {me} +r"));
        s.alphabet_for.push((slot, "MODE {me} -r"));
    }
    s.probe_focus = Some(crate::check::Focus { cats: vec![], relays: false, relay_verbs: None, actor: true, actor_codes: Some(vec!["221"]), closes: false });
    s
}

pub fn plan(quick: bool) -> Plan {
    let mut plan = plan_base();
    // predefined channels, users and operators govern behaviour as documented: the
    // configuration lattice of C16 and configured-user / configured-operator scenarios of C03 / C11
    plan.parts.push(Part::Custom("fun:c16-lattice".into(), Box::new(move || super::chat::c16_lattice(quick))));
    plan.parts.extend(super::reg::c20_user_parts(quick));
    // "predefined users": who counts as one is decided by the USER name the connection has
    // when its registration completes, whatever earlier attempts of that connection named
    plan.parts.push(Part::Custom("fun:c20-predefined-lists".into(), Box::new(|| super::chat::sweep("fun:c20-predefined-lists", predefined_lists_scripts(), super::chat::c08_enforce_focus(), vec!["JOIN", "474", "473"]))));
    plan.parts.push(Part::Bfs(Box::new(predefined_user_contended(!quick)), super::lim(if quick { 6 } else { 7 }, 2_000_000, if quick { 20.0 } else { 600.0 })));
    plan.parts.extend(super::life::c20_oper_parts(quick));
    plan.rule.push_str("; (f) predefined channels (the 16-setting lattice of C16: settings present from start-up, listed in MODE queries, ranks given on join, persistence while empty), predefined users (3 configurations of C03) and predefined operators / default user modes (2 configurations of C11) on the wire");
    if !quick {
        plan.parts.push(Part::Custom("bind:c20-tls".into(), Box::new(part_tls)));
        plan.rule.push_str("; (d, thorough) every history up to depth 2 of a two-user scenario (JOIN, PRIVMSG, WHOIS, NICK, TOPIC, PART, QUIT) over plain TCP against the binary started without [tls] and over TLS (rustls client trusting test_data/cert.crt) against the same binary started with [tls]: transcripts equal except RPL_WHOISSECURE");
        plan.parts.push(Part::Custom("fun:c20-process".into(), Box::new(part_process)));
        plan.rule.push_str("; (e, thorough) the production binary built without the cfg: '-g -P pw' prints a hash that verifies exactly pw; 6 invalid configurations/command lines make the process exit with an error without ever listening, 2 valid ones are served (001 with the effective name)");
    }
    plan
}

fn plan_base() -> Plan {
    Plan {
        property: "C20".into(),
        rule: "(a) the full product of per-field menus of a configuration file (name dotted/undotted; password absent/valid/bad base64/wrong length; user none/valid/valid without password/name with channel sigil/nick with dot/201-char nick/5-char password/bad hash; operator none/valid/bad name/bad hash; channel none/valid/no sigil/comma; [tls] absent/both/one key) x 11 command-line variants = 33 792 configurations through Cli::try_parse_from + MainConfig::new: accepted iff every field is valid (the effective name after -n counts, -C and -K only together), CLI overrides win; (b) each leaf key documented in config-example.toml is removed in turn: the parsed configuration must change (the key is live) or be rejected (it is required); (c) 20x20 password pairs: verify(q, hash(p)) iff p = q, every generated hash passes validation; (d) 288 valid configurations on the wire: welcome burst (001, 002, 004, 005 NETWORK/CHANLIMIT, 372, 375, 221) reflects name/network/MOTD/max_joins/default modes, default modes take effect, max_joins is enforced, the server password is the one that was hashed; (d') max_connections = 2 governs the number of served connections (E-SEQ slot scenario shared with C19)".into(),
        assumptions: vec!["process exit on an invalid configuration is MainConfig::new returning Err (main() propagates it with `?` before run_server)".into(), "TLS transport equality and process-level start-up are checked in the thorough tier only (they need two builds of the production binary)".into()],
        parts: vec![
            Part::Custom("fun:c20-validation".into(), Box::new(part_lattice)),
            Part::Custom("fun:c20-example".into(), Box::new(part_example)),
            Part::Custom("fun:c20-hash".into(), Box::new(part_hash)),
            Part::Custom("fun:c20-behaviour".into(), Box::new(part_behaviour)),
            // max_connections is a documented setting too: the slot scenario of C19 (every pattern of
            // opening, refusing and closing connections under max_connections = 2)
            Part::Bfs(Box::new(super::life::Slots { max: 2, with_password: false }), super::lim(7, 2_000_000, 10.0)),
        ],
    }
}
