//! Helpers shared by the property scenarios: direct read-only queries.

use crate::canon::{parse_server_line, Msg};
use crate::check::Finding;
use crate::world::{MachineryError, World};
use std::collections::{BTreeMap, BTreeSet};

/// Send a query from `slot`, return the parsed reply lines of that slot. Lines
/// that other slots receive as a consequence are left in their buffers.
pub fn query(w: &mut World, slot: usize, line: &str) -> Result<Vec<Msg>, MachineryError> {
    w.take_lines(slot);
    w.send(slot, line)?;
    Ok(w.take_lines(slot).iter().filter_map(|l| parse_server_line(l)).collect())
}

pub fn strip_prefix(name: &str) -> &str {
    name.trim_start_matches(|c| c == '~' || c == '&' || c == '@' || c == '%' || c == '+')
}

/// NAMES #chan as seen by slot: nick -> prefix string; None if no 353 came.
pub fn names_view(w: &mut World, slot: usize, chan: &str) -> Result<BTreeMap<String, String>, MachineryError> {
    let r = query(w, slot, &format!("NAMES {}", chan))?;
    let mut out = BTreeMap::new();
    for m in r {
        if m.cmd == "353" && m.params.len() >= 4 && m.params[2] == chan {
            for n in m.params[3].split(' ').filter(|x| !x.is_empty()) {
                let nick = strip_prefix(n);
                out.insert(nick.to_string(), n[..n.len() - nick.len()].to_string());
            }
        }
    }
    Ok(out)
}

/// WHO mask as seen by slot: nick -> (channel column, flags)
pub fn who_view(w: &mut World, slot: usize, mask: &str) -> Result<BTreeMap<String, (String, String)>, MachineryError> {
    let r = query(w, slot, &format!("WHO {}", mask))?;
    let mut out = BTreeMap::new();
    for m in r {
        // 352 client channel user host server nick flags :hop real
        if m.cmd == "352" && m.params.len() >= 7 {
            out.insert(m.params[5].clone(), (m.params[1].clone(), m.params[6].clone()));
        }
    }
    Ok(out)
}

/// WHOIS nick as seen by slot: None if the nick is not reported (no 311),
/// else the set of channels in 319 (prefixes stripped) with their prefixes.
pub fn whois_view(w: &mut World, slot: usize, nick: &str) -> Result<Option<BTreeMap<String, String>>, MachineryError> {
    let r = query(w, slot, &format!("WHOIS {}", nick))?;
    let mut seen = false;
    let mut out = BTreeMap::new();
    for m in r {
        if m.cmd == "311" && m.params.get(1).map(|s| s.as_str()) == Some(nick) {
            seen = true;
        }
        if m.cmd == "319" && m.params.len() >= 3 && m.params[1] == nick {
            for c in m.params[2].split(' ').filter(|x| !x.is_empty()) {
                // the channel name starts at the first '#', or - for a local channel - at the
                // last '&' (a '&' before it is the protected-member prefix)
                let pos = c.find('#').or_else(|| c.rfind('&')).unwrap_or(0);
                out.insert(c[pos..].to_string(), c[..pos].to_string());
            }
        }
    }
    Ok(if seen { Some(out) } else { None })
}

/// WHOIS n1,n2,... as seen by slot: per reported nick the channels of its 319 lines.
pub fn whois_multi_view(w: &mut World, slot: usize, nicks: &[String]) -> Result<BTreeMap<String, BTreeMap<String, String>>, MachineryError> {
    let r = query(w, slot, &format!("WHOIS {}", nicks.join(",")))?;
    let mut out: BTreeMap<String, BTreeMap<String, String>> = BTreeMap::new();
    for m in r {
        if m.cmd == "311" {
            if let Some(n) = m.params.get(1) {
                out.entry(n.clone()).or_default();
            }
        }
        if m.cmd == "319" && m.params.len() >= 3 {
            let e = out.entry(m.params[1].clone()).or_default();
            for c in m.params[2].split(' ').filter(|x| !x.is_empty()) {
                let pos = c.find('#').or_else(|| c.rfind('&')).unwrap_or(0);
                e.insert(c[pos..].to_string(), c[..pos].to_string());
            }
        }
    }
    Ok(out)
}

pub fn finding(sig: &str, detail: String) -> Finding {
    Finding {
        sig: sig.to_string(),
        detail,
    }
}

pub fn nickset(m: &BTreeMap<String, String>) -> BTreeSet<String> {
    m.keys().cloned().collect()
}
