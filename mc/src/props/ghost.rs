//! Contended registration as a prelude to other properties' checks: two
//! connections claim the nickname `bob` during the search (NICK and USER in any
//! order and interleaving, one of them may be refused half-way, either may close
//! at any point) next to a registered member `alice` of #x. The properties about
//! audiences (C01), rosters (C04), crashes (C05), session ends (C06) and
//! statistics (C19) quantify over "every history of registrations ... and
//! disconnects"; histories in which a refused or unfinished registration
//! precedes the observation belong to them. The step oracle is the Spec (a
//! connection that is not registered changes nothing), the probes are the
//! property's own.

use crate::check::{Cat, Focus};
use crate::scn::{late_part, part, Cfg, ChatScn};

pub fn ghost_scn(name: &str, cats: &[Cat], full: bool) -> ChatScn {
    let mut s = ChatScn::new(name, Cfg::default(), vec![part(0, "alice", "alicia", "au"), late_part(1, "bob", "bobby", "bu"), late_part(2, "bob", "bobby", "gu")], 0);
    s.prelude = vec![(0, "JOIN #x".into())];
    // whoever wins the nickname joins the channel / renames / leaves
    for slot in [1usize, 2] {
        s.alphabet_for.push((slot, "JOIN #x"));
        if full {
            s.alphabet_for.push((slot, "NICK {alt}"));
            s.alphabet_for.push((slot, "QUIT"));
        }
    }
    s.ends = vec!["eof"];
    s.orphan_check = true;
    // what the two claimants have already tried is part of the state key
    s.key_tried = vec![1, 2];
    s.focus = Focus::state_only(cats);
    s.invariants = vec!["membership-symmetry", "dangling-member", "rank-set", "invisible-count", "operators-count", "max-users"];
    s.goals = vec!["ghost:refused-433", "ghost:ended-while-owner-lives"];
    // one live connection per registered nickname, and no connection that counts as
    // registered without owning a user (the oracle of C02)
    s.state_oracle = Some(Box::new(|_scn, _w, v, _g| super::reg::ownership_bijection(v)));
    s.step_oracle = Some(Box::new(|_scn, pre, obs, post, goals| {
        if obs.lines.iter().any(|ls| ls.iter().any(|l| l.contains(" 433 "))) {
            goals.insert("ghost:refused-433".into());
        }
        // a connection that never registered ended while the nickname's owner lives on
        if let Some(i) = obs.act.actor() {
            let ended = pre.life[i] == crate::world::Life::Live && post.life[i] != crate::world::Life::Live;
            if ended && pre.nick(i).is_none() && pre.infos[i].as_ref().map_or(false, |x| x.nick.is_some()) && post.m.users.contains_key("bob") {
                goals.insert("ghost:ended-while-owner-lives".into());
            }
        }
        vec![]
    }));
    s
}
