//! mc - model checker harness for simple-irc-server (properties C01-C20).
//! The repository's real sources are compiled in via #[path]; see DESIGN.md.
#![allow(dead_code, unused_imports, unused_variables, unused_mut, unexpected_cfgs, deprecated, clippy::all)]
#[path = "/repo/src/command.rs"]
mod command;
#[path = "/repo/src/config.rs"]
mod config;
#[path = "/repo/src/help.rs"]
mod help;
#[path = "/repo/src/reply.rs"]
mod reply;
#[path = "/repo/src/state/mod.rs"]
mod state;
#[path = "/repo/src/utils.rs"]
mod utils;

use command::*;
use config::*;
use state::*;
use utils::*;

mod bfs;
mod bind;
mod canon;
mod check;
mod dfs;
mod fun;
mod props;
mod run;
mod scn;
mod spec;
mod world;

fn usage() -> ! {
    eprintln!("usage: mc --property <ID> [--tier quick|thorough] | mc --replay <path> | mc --list");
    std::process::exit(2);
}

fn main() {
    world::install_panic_hook();
    let args: Vec<String> = std::env::args().collect();
    let mut property = None;
    let mut tier = std::env::var("VERIF_TIER").unwrap_or_else(|_| "quick".into());
    let mut replay = None;
    let mut i = 1;
    while i < args.len() {
        match args[i].as_str() {
            "--property" => {
                property = args.get(i + 1).cloned();
                i += 2;
            }
            "--tier" => {
                tier = args.get(i + 1).cloned().unwrap_or_else(|| usage());
                i += 2;
            }
            "--replay" => {
                replay = args.get(i + 1).cloned();
                i += 2;
            }
            "--list" => {
                for p in props::ALL {
                    println!("{}", p);
                }
                return;
            }
            _ => usage(),
        }
    }
    let verif_dir = std::env::var("VERIF_DIR").unwrap_or_else(|_| "/verif".into());
    let seed: i64 = std::env::var("VERIF_SEED").ok().and_then(|s| s.parse().ok()).unwrap_or(0);
    if let Some(path) = replay {
        let code = run::replay(&path, &|p, n| props::find_scenario(p, n));
        std::process::exit(code);
    }
    let property = property.unwrap_or_else(|| usage());
    let plan = match props::plan(&property, &tier) {
        Some(p) => p,
        None => {
            eprintln!("MACHINERY: no plan for property {}", property);
            std::process::exit(2);
        }
    };
    // VERIF_OUT_DIR: where evidence/ and replays/ go (experiments on modified trees
    // must not overwrite the committed evidence); defaults to the verif directory
    let out_dir = std::env::var("VERIF_OUT_DIR").unwrap_or_else(|_| verif_dir.clone());
    let code = run::execute(plan, &tier, seed, &verif_dir, &out_dir);
    std::process::exit(code);
}
