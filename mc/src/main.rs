#![allow(dead_code, unused_imports, unexpected_cfgs, deprecated, clippy::all)]
#[path = "/repo/src/command.rs"]
mod command;
#[path = "/repo/src/config.rs"]
mod config;
#[path = "/repo/src/help.rs"]
mod help;
#[path = "/repo/src/reply.rs"]
mod reply;
#[path = "/repo/src/state/mod.rs"]
mod state;
#[path = "/repo/src/utils.rs"]
mod utils;

use command::*;
use config::*;
use state::*;
use utils::*;

mod world;

fn main() {
    world::install_panic_hook();
    let t = std::time::Instant::now();
    let mut w = world::World::new(MainConfig::default(), 3);
    w.register(0, "alice", "au").unwrap();
    w.register(1, "bob", "bu").unwrap();
    println!("{:#?}", w.take_all());
    w.send(0, "JOIN #x").unwrap();
    w.send(1, "JOIN #x").unwrap();
    w.send(0, "PRIVMSG #x :hello there").unwrap();
    w.send(1, "KICK #nochan alice").unwrap();
    println!("{:#?}", w.take_all());
    println!("{:?}", w.conns.iter().map(|c| c.life.clone()).collect::<Vec<_>>());
    println!("{:#?}", w.snapshot());
    println!("{:?}", t.elapsed());
}
