//! Reference model ("Spec"): a deliberately dull transcription of the property
//! statements C01-C20. It is a *one-step* specification over an abstract state
//! `M` obtained from the real server's snapshot: for a pre-state, an actor and
//! a client line it yields the expected post-state and the expected lines on
//! every socket. It is written from the statements, not from the handlers.

use crate::canon::{is_numeric, tokenize, Msg};
use crate::state::verif::{ConnInfo, Snapshot};
use std::collections::{BTreeMap, BTreeSet};

// ---------------------------------------------------------------------------
// reference glob and mask normaliser (C14)

/// '*' = any possibly empty run of characters, '?' = exactly one character,
/// everything else itself; whole-text match; case-sensitive; over chars.
pub fn glob(mask: &str, text: &str) -> bool {
    // textbook dynamic programme: ok[i][j] = mask[..i] matches text[..j]
    let m: Vec<char> = mask.chars().collect();
    let t: Vec<char> = text.chars().collect();
    let mut ok = vec![vec![false; t.len() + 1]; m.len() + 1];
    ok[0][0] = true;
    for i in 1..=m.len() {
        if m[i - 1] == '*' {
            ok[i][0] = ok[i - 1][0];
        }
        for j in 1..=t.len() {
            ok[i][j] = match m[i - 1] {
                '*' => ok[i - 1][j] || ok[i][j - 1],
                '?' => ok[i - 1][j - 1],
                c => ok[i - 1][j - 1] && c == t[j - 1],
            };
        }
    }
    ok[m.len()][t.len()]
}

/// nick -> nick!*@*, nick@host -> nick!*@host, nick!user -> nick!user@*
pub fn normalize_mask(mask: &str) -> String {
    if let Some(p) = mask.find('!') {
        if mask[p + 1..].contains('@') {
            mask.to_string()
        } else {
            format!("{}@*", mask)
        }
    } else if let Some(p) = mask.find('@') {
        format!("{}!*{}", &mask[..p], &mask[p..])
    } else {
        format!("{}!*@*", mask)
    }
}

// ---------------------------------------------------------------------------
// abstract state

#[derive(Clone, Debug, Default, PartialEq, Eq, Hash, PartialOrd, Ord)]
pub struct MUser {
    pub name: String,
    pub host: String,
    pub realname: String,
    pub source: String,
    pub i: bool,
    pub o: bool,
    pub lo: bool,
    pub r: bool,
    pub w: bool,
    pub away: Option<String>,
    pub invited: BTreeSet<String>,
    /// a KILL/DIE notice has been issued for this user
    pub killed: bool,
}

#[derive(Clone, Copy, Debug, Default, PartialEq, Eq, Hash, PartialOrd, Ord)]
pub struct MMember {
    pub q: bool,
    pub a: bool,
    pub o: bool,
    pub h: bool,
    pub v: bool,
}

impl MMember {
    pub fn ge_protected(&self) -> bool {
        self.q || self.a
    }
    pub fn ge_op(&self) -> bool {
        self.q || self.a || self.o
    }
    pub fn ge_halfop(&self) -> bool {
        self.q || self.a || self.o || self.h
    }
    pub fn ge_voice(&self) -> bool {
        self.q || self.a || self.o || self.h || self.v
    }
    pub fn prefix(&self, multi: bool) -> String {
        let mut s = String::new();
        for (f, c) in [(self.q, '~'), (self.a, '&'), (self.o, '@'), (self.h, '%'), (self.v, '+')] {
            if f && (multi || s.is_empty()) {
                s.push(c);
            }
        }
        s
    }
    pub fn has(&self, letter: char) -> bool {
        match letter {
            'q' => self.q,
            'a' => self.a,
            'o' => self.o,
            'h' => self.h,
            'v' => self.v,
            _ => false,
        }
    }
    pub fn set(&mut self, letter: char, val: bool) {
        match letter {
            'q' => self.q = val,
            'a' => self.a = val,
            'o' => self.o = val,
            'h' => self.h = val,
            'v' => self.v = val,
            _ => {}
        }
    }
}

#[derive(Clone, Debug, Default, PartialEq, Eq, Hash, PartialOrd, Ord)]
pub struct MChan {
    pub topic: Option<(String, String)>,
    pub ban: BTreeSet<String>,
    pub except: BTreeSet<String>,
    pub invex: BTreeSet<String>,
    pub limit: Option<usize>,
    pub key: Option<String>,
    pub fi: bool,
    pub fm: bool,
    pub fs: bool,
    pub ft: bool,
    pub fnn: bool,
    pub members: BTreeMap<String, MMember>,
    pub precfg: bool,
    /// configured rank lists (q, a, o, h, v) of a predefined channel
    pub def: [BTreeSet<String>; 5],
}

impl MChan {
    pub fn banned(&self, source: &str) -> bool {
        self.ban.iter().any(|b| glob(b, source)) && !self.except.iter().any(|e| glob(e, source))
    }
    pub fn flag(&self, c: char) -> bool {
        match c {
            'i' => self.fi,
            'm' => self.fm,
            's' => self.fs,
            't' => self.ft,
            'n' => self.fnn,
            _ => false,
        }
    }
    pub fn set_flag(&mut self, c: char, v: bool) {
        match c {
            'i' => self.fi = v,
            'm' => self.fm = v,
            's' => self.fs = v,
            't' => self.ft = v,
            'n' => self.fnn = v,
            _ => {}
        }
    }
}

#[derive(Clone, Debug, Default, PartialEq, Eq, Hash, PartialOrd, Ord)]
pub struct M {
    pub users: BTreeMap<String, MUser>,
    pub chans: BTreeMap<String, MChan>,
    pub hist: BTreeMap<String, Vec<(String, String, String)>>,
    pub max_users: usize,
    pub server_quit_fired: bool,
}

impl M {
    pub fn from_snapshot(s: &Snapshot) -> M {
        let mut m = M::default();
        for u in &s.users {
            m.users.insert(
                u.nick.clone(),
                MUser {
                    name: u.name.clone(),
                    host: u.hostname.clone(),
                    realname: u.realname.clone(),
                    source: u.source.clone(),
                    i: u.invisible,
                    o: u.oper,
                    lo: u.local_oper,
                    r: u.registered,
                    w: u.wallops,
                    away: u.away.clone(),
                    invited: u.invited_to.iter().cloned().collect(),
                    killed: !u.has_quit_sender,
                },
            );
        }
        for c in &s.channels {
            let mut ch = MChan {
                topic: c.topic.as_ref().map(|t| (t.0.clone(), t.1.clone())),
                ban: c.ban.iter().cloned().collect(),
                except: c.exception.iter().cloned().collect(),
                invex: c.invite_exception.iter().cloned().collect(),
                limit: c.client_limit,
                key: c.key.clone(),
                fi: c.invite_only,
                fm: c.moderated,
                fs: c.secret,
                ft: c.protected_topic,
                fnn: c.no_external_messages,
                members: BTreeMap::new(),
                precfg: c.preconfigured,
                def: [
                    c.def_founders.iter().cloned().collect(),
                    c.def_protecteds.iter().cloned().collect(),
                    c.def_operators.iter().cloned().collect(),
                    c.def_half_operators.iter().cloned().collect(),
                    c.def_voices.iter().cloned().collect(),
                ],
            };
            for mm in &c.users {
                ch.members.insert(
                    mm.nick.clone(),
                    MMember {
                        q: mm.founder,
                        a: mm.protected,
                        o: mm.operator,
                        h: mm.half_oper,
                        v: mm.voice,
                    },
                );
            }
            m.chans.insert(c.name.clone(), ch);
        }
        for (n, h) in &s.nick_histories {
            m.hist.insert(
                n.clone(),
                h.iter()
                    .map(|e| (e.username.clone(), e.hostname.clone(), e.realname.clone()))
                    .collect(),
            );
        }
        m.max_users = s.max_users_count;
        m.server_quit_fired = !s.has_quit_sender;
        m
    }

    pub fn chans_of(&self, nick: &str) -> BTreeSet<String> {
        self.chans
            .iter()
            .filter(|(_, c)| c.members.contains_key(nick))
            .map(|(n, _)| n.clone())
            .collect()
    }

    pub fn share_channel(&self, a: &str, b: &str) -> bool {
        self.chans
            .values()
            .any(|c| c.members.contains_key(a) && c.members.contains_key(b))
    }

    /// Remove `nick` from channel `ch`; drop the channel if empty and not preconfigured.
    pub fn leave(&mut self, ch: &str, nick: &str) {
        let mut drop_it = false;
        if let Some(c) = self.chans.get_mut(ch) {
            c.members.remove(nick);
            drop_it = c.members.is_empty() && !c.precfg;
        }
        if drop_it {
            self.chans.remove(ch);
        }
    }

    /// C06: the user disappears everywhere; one WHOWAS entry is kept.
    pub fn erase_user(&mut self, nick: &str) {
        if let Some(u) = self.users.remove(nick) {
            for ch in self.chans_of(nick) {
                self.leave(&ch, nick);
            }
            self.hist
                .entry(nick.to_string())
                .or_default()
                .push((u.name.clone(), u.host.clone(), u.realname.clone()));
        }
    }

    /// C15: everything keyed by `old` is now keyed by `new`.
    pub fn rename_user(&mut self, old: &str, new: &str) {
        if let Some(mut u) = self.users.remove(old) {
            self.hist
                .entry(old.to_string())
                .or_default()
                .push((u.name.clone(), u.host.clone(), u.realname.clone()));
            u.source = format!("{}!~{}@{}", new, u.name, u.host);
            self.users.insert(new.to_string(), u);
            for c in self.chans.values_mut() {
                if let Some(mm) = c.members.remove(old) {
                    c.members.insert(new.to_string(), mm);
                }
            }
        }
    }

    pub fn visible_to(&self, target: &str, viewer: &str) -> bool {
        match self.users.get(target) {
            Some(u) => !u.i || target == viewer || self.share_channel(target, viewer),
            None => false,
        }
    }
}

// ---------------------------------------------------------------------------
// representation invariants of the real snapshot (abstraction well-defined)

pub fn rep_invariants(s: &Snapshot) -> Vec<(&'static str, String)> {
    let mut v = vec![];
    let user_names: BTreeSet<&String> = s.users.iter().map(|u| &u.nick).collect();
    // membership stored from both sides
    for u in &s.users {
        for ch in &u.channels {
            let ok = s
                .channels
                .iter()
                .any(|c| &c.name == ch && c.users.iter().any(|m| m.nick == u.nick));
            if !ok {
                v.push(("membership-symmetry", format!("user {} lists {} but the channel does not list the user", u.nick, ch)));
            }
        }
    }
    for c in &s.channels {
        for m in &c.users {
            match s.users.iter().find(|u| u.nick == m.nick) {
                None => v.push(("dangling-member", format!("channel {} lists {} who is not a user", c.name, m.nick))),
                Some(u) => {
                    if !u.channels.contains(&c.name) {
                        v.push(("membership-symmetry", format!("channel {} lists {} but the user does not list the channel", c.name, m.nick)));
                    }
                }
            }
        }
        let set_of = |f: &dyn Fn(&crate::state::verif::SnapMember) -> bool| -> Vec<String> {
            let mut x: Vec<String> = c.users.iter().filter(|m| f(m)).map(|m| m.nick.clone()).collect();
            x.sort();
            x
        };
        for (name, set, flagged) in [
            ("founders", &c.founders, set_of(&|m| m.founder)),
            ("protecteds", &c.protecteds, set_of(&|m| m.protected)),
            ("operators", &c.operators, set_of(&|m| m.operator)),
            ("half_operators", &c.half_operators, set_of(&|m| m.half_oper)),
            ("voices", &c.voices, set_of(&|m| m.voice)),
        ] {
            if set != &flagged {
                v.push(("rank-set", format!("channel {} rank set {} = {:?} but members flagged = {:?}", c.name, name, set, flagged)));
            }
        }
        if c.users.is_empty() && !c.preconfigured {
            v.push(("empty-channel", format!("channel {} is empty but still exists", c.name)));
        }
        let bi: BTreeSet<&String> = c.ban_info.iter().map(|b| &b.0).collect();
        for b in &bi {
            if !c.ban.contains(b) {
                v.push(("ban-info", format!("channel {} ban_info for {} without ban", c.name, b)));
            }
        }
    }
    for w in &s.wallops_users {
        if !user_names.contains(w) {
            v.push(("dangling-wallops", format!("wallops set lists {} who is not a user", w)));
        }
    }
    let wl: Vec<String> = {
        let mut x: Vec<String> = s.users.iter().filter(|u| u.wallops).map(|u| u.nick.clone()).collect();
        x.sort();
        x
    };
    if wl != s.wallops_users {
        v.push(("wallops-set", format!("wallops set {:?} but users with +w {:?}", s.wallops_users, wl)));
    }
    let inv = s.users.iter().filter(|u| u.invisible).count();
    if inv != s.invisible_users_count {
        v.push(("invisible-count", format!("invisible_users_count {} but {} users are +i", s.invisible_users_count, inv)));
    }
    let ops = s.users.iter().filter(|u| u.oper || u.local_oper).count();
    if ops != s.operators_count {
        v.push(("operators-count", format!("operators_count {} but {} users are operators", s.operators_count, ops)));
    }
    if s.max_users_count < s.users.len() {
        v.push(("max-users", format!("max_users_count {} < users {}", s.max_users_count, s.users.len())));
    }
    v
}

// ---------------------------------------------------------------------------
// configuration facts the spec needs (plaintext secrets, limits)

#[derive(Clone, Debug, Default)]
pub struct SpecOper {
    pub name: String,
    pub password: String,
    pub mask: Option<String>,
}

#[derive(Clone, Debug, Default)]
pub struct SpecUser {
    pub name: String,
    pub password: Option<String>,
    pub mask: Option<String>,
}

#[derive(Clone, Debug)]
pub struct SpecCfg {
    pub server: String,
    pub max_joins: Option<usize>,
    pub password: Option<String>,
    pub opers: Vec<SpecOper>,
    pub users: Vec<SpecUser>,
    pub def_i: bool,
    pub def_o: bool,
    pub def_lo: bool,
    pub def_r: bool,
    pub def_w: bool,
}

impl Default for SpecCfg {
    fn default() -> Self {
        SpecCfg {
            server: "irc.irc".into(),
            max_joins: None,
            password: None,
            opers: vec![],
            users: vec![],
            def_i: false,
            def_o: false,
            def_lo: false,
            def_r: false,
            def_w: false,
        }
    }
}

// ---------------------------------------------------------------------------
// expected lines

#[derive(Clone, Debug, PartialEq, Eq)]
pub enum P {
    Is(String),
    Any,
    /// zero or more remaining parameters, anything
    Rest,
    /// a space separated set of names (353)
    Set(BTreeSet<String>),
}

#[derive(Clone, Debug, PartialEq, Eq)]
pub enum Req {
    Must,
    May,
    /// at least one line of this group must be observed
    OneOf(u32),
}

#[derive(Clone, Debug)]
pub struct ExpLine {
    /// None = from the server; Some(src) = exact user source
    pub prefix: Option<String>,
    pub cmd: String,
    /// for numerics: parameters after the client label
    pub params: Vec<P>,
    pub req: Req,
}

pub fn num(code: &str, params: &[&str]) -> ExpLine {
    ExpLine {
        prefix: None,
        cmd: code.to_string(),
        params: params.iter().map(|p| if *p == "\u{0}" { P::Any } else { P::Is(p.to_string()) }).chain(std::iter::once(P::Rest)).collect(),
        req: Req::Must,
    }
}

/// A refusal for which several reasons apply at once: the statements do not rank
/// the reasons, so at least one of the applicable numerics must be seen and any
/// of the others may accompany it.
pub fn refuse(e: &mut Exp, group: u32, lines: Vec<ExpLine>) {
    for l in lines {
        e.actor.push(l.one_of(group));
    }
}

pub fn num_any(code: &str) -> ExpLine {
    ExpLine {
        prefix: None,
        cmd: code.to_string(),
        params: vec![P::Rest],
        req: Req::Must,
    }
}

pub fn relay(src: &str, cmd: &str, params: &[&str]) -> ExpLine {
    ExpLine {
        prefix: Some(src.to_string()),
        cmd: cmd.to_string(),
        params: params.iter().map(|p| P::Is(p.to_string())).collect(),
        req: Req::Must,
    }
}

impl ExpLine {
    pub fn may(mut self) -> Self {
        self.req = Req::May;
        self
    }
    pub fn one_of(mut self, g: u32) -> Self {
        self.req = Req::OneOf(g);
        self
    }
    pub fn matches(&self, server: &str, m: &Msg) -> bool {
        match (&self.prefix, &m.prefix) {
            (None, Some(p)) if p == server => {}
            (Some(e), Some(p)) if e == p => {}
            _ => return false,
        }
        if !self.cmd.eq_ignore_ascii_case(&m.cmd) {
            // the server writes some ERROR lines as "ERROR: text"
            if !(self.cmd == "ERROR" && m.cmd == "ERROR:") {
                return false;
            }
        }
        let obs: &[String] = if self.prefix.is_none() && is_numeric(&m.cmd) {
            if m.params.is_empty() {
                &[]
            } else {
                &m.params[1..]
            }
        } else {
            &m.params[..]
        };
        let mut k = 0;
        for p in &self.params {
            match p {
                P::Rest => return true,
                P::Any => {
                    if k >= obs.len() {
                        return false;
                    }
                    k += 1;
                }
                P::Is(s) => {
                    if k >= obs.len() || &obs[k] != s {
                        return false;
                    }
                    k += 1;
                }
                P::Set(set) => {
                    if k >= obs.len() {
                        return false;
                    }
                    let got: BTreeSet<String> = obs[k].split(' ').filter(|x| !x.is_empty()).map(|x| x.to_string()).collect();
                    let n = obs[k].split(' ').filter(|x| !x.is_empty()).count();
                    if &got != set || n != set.len() {
                        return false;
                    }
                    k += 1;
                }
            }
        }
        k == obs.len()
    }
}

/// Match observed lines against expectations (multiset semantics).
pub fn match_lines(server: &str, exp: &[ExpLine], obs: &[Msg]) -> Result<(), String> {
    let mut used = vec![false; exp.len()];
    for m in obs {
        let mut found = None;
        // prefer Must, then OneOf, then May
        for pass in 0..3 {
            for (k, e) in exp.iter().enumerate() {
                if used[k] {
                    continue;
                }
                let cls = match e.req {
                    Req::Must => 0,
                    Req::OneOf(_) => 1,
                    Req::May => 2,
                };
                if cls == pass && e.matches(server, m) {
                    found = Some(k);
                    break;
                }
            }
            if found.is_some() {
                break;
            }
        }
        match found {
            Some(k) => used[k] = true,
            None => return Err(format!("unexpected line {:?}", render(m))),
        }
    }
    let mut groups: BTreeMap<u32, bool> = BTreeMap::new();
    for (k, e) in exp.iter().enumerate() {
        match e.req {
            Req::Must => {
                if !used[k] {
                    return Err(format!("missing line {}", describe(e)));
                }
            }
            Req::OneOf(g) => {
                let ent = groups.entry(g).or_insert(false);
                *ent = *ent || used[k];
            }
            Req::May => {}
        }
    }
    for (g, ok) in groups {
        if !ok {
            let alts: Vec<String> = exp.iter().filter(|e| e.req == Req::OneOf(g)).map(describe).collect();
            return Err(format!("none of the admissible lines observed: {}", alts.join(" | ")));
        }
    }
    Ok(())
}

pub fn render(m: &Msg) -> String {
    format!(
        "{}{} {}",
        m.prefix.as_ref().map(|p| format!(":{} ", p)).unwrap_or_default(),
        m.cmd,
        m.params.join(" ")
    )
}

pub fn describe(e: &ExpLine) -> String {
    let ps: Vec<String> = e
        .params
        .iter()
        .map(|p| match p {
            P::Is(s) => s.clone(),
            P::Any => "<any>".into(),
            P::Rest => "...".into(),
            P::Set(s) => format!("{{{}}}", s.iter().cloned().collect::<Vec<_>>().join(" ")),
        })
        .collect();
    format!(
        "[{} {} {}]",
        e.prefix.clone().unwrap_or_else(|| "<server>".into()),
        e.cmd,
        ps.join(" ")
    )
}

/// What the spec expects from one client line.
#[derive(Clone, Debug, Default)]
pub struct Exp {
    pub next: M,
    /// expected lines per receiver nick (pre-state nick); the actor's own lines
    /// are under `actor`
    pub to: BTreeMap<String, Vec<ExpLine>>,
    pub actor: Vec<ExpLine>,
    /// nicks (pre-state) whose connection must be ended by the server
    pub closed: BTreeSet<String>,
    pub actor_closed: bool,
    /// the actor's connection may or may not be closed (statement silent)
    pub actor_close_optional: bool,
    /// spec has nothing to say about the actor's own reply lines
    pub actor_unchecked: bool,
    /// structural expectation for a channel MODE announcement
    pub mode_announce: Option<ModeAnnounce>,
    /// (source, nick, set letters, unset letters) of a user MODE echo
    pub user_mode_announce: Option<(String, String, String, String)>,
    /// registration completes with this line: the welcome burst (001) must appear
    pub welcome: bool,
    /// registration must not complete: no 001 may appear
    pub no_welcome: bool,
    /// after this step the actor's capability negotiation must be open (Some(true))
    /// / closed (Some(false))
    pub cap_open_after: Option<bool>,
    /// registration data the connection must remember after this step
    /// (nick, user name, supplied password) while registration is incomplete
    pub reg_after: Option<(Option<String>, Option<String>, Option<String>)>,
}

// ---------------------------------------------------------------------------
// client line classification helpers

/// The nickname length the server advertises (ISUPPORT NICKLEN).
pub const NICKLEN: usize = 200;

pub fn valid_nick_syntax(n: &str) -> bool {
    !n.is_empty() && !n.starts_with('#') && !n.starts_with('&') && !n.contains('.') && !n.contains(':') && !n.contains(',')
}

pub fn valid_chan_syntax(c: &str) -> bool {
    c.len() > 0 && (c.starts_with('#') || c.starts_with('&')) && !c.contains(':') && !c.contains(',')
}

/// Split a PRIVMSG/NOTICE target into (status letters, channel) if it is a
/// channel target. Only '#' channels and the prefixes ~ @ % + are modelled.
pub fn split_status(target: &str) -> Option<(Vec<char>, &str)> {
    let mut st = vec![];
    for (i, c) in target.char_indices() {
        match c {
            '~' => st.push('q'),
            '@' => st.push('o'),
            '%' => st.push('h'),
            '+' => st.push('v'),
            '#' => {
                if i + 1 < target.len() {
                    return Some((st, &target[i..]));
                } else {
                    return None;
                }
            }
            _ => return None,
        }
    }
    None
}

pub struct Actor<'a> {
    pub nick: Option<&'a str>,
    pub info: &'a ConnInfo,
}

fn names_set(m: &M, ch: &MChan, viewer: &str, multi: bool) -> BTreeSet<String> {
    let viewer_in = ch.members.contains_key(viewer);
    ch.members
        .iter()
        .filter(|(n, _)| viewer_in || !m.users.get(*n).map_or(false, |u| u.i))
        .map(|(n, mm)| format!("{}{}", mm.prefix(multi), n))
        .collect()
}

/// Expected 353/366 block for one channel as seen by `viewer`.
pub fn exp_names(m: &M, chname: &str, viewer: &str, multi: bool, out: &mut Vec<ExpLine>) {
    if let Some(ch) = m.chans.get(chname) {
        let viewer_in = ch.members.contains_key(viewer);
        if !ch.fs || viewer_in {
            let set = names_set(m, ch, viewer, multi);
            if !set.is_empty() {
                out.push(ExpLine {
                    prefix: None,
                    cmd: "353".into(),
                    params: vec![P::Any, P::Is(chname.to_string()), P::Set(set)],
                    req: Req::Must,
                });
            }
        }
    }
    out.push(num("366", &[chname]));
}

/// The spec of one client line in one state. Returns None where the
/// statements say nothing (the caller then checks nothing for this step).
pub fn step(m: &M, cfg: &SpecCfg, actor: &Actor, line: &str) -> Option<Exp> {
    let msg = tokenize(line).ok()?;
    let verb = msg.cmd.to_ascii_uppercase();
    let p = &msg.params;
    let mut e = Exp {
        next: m.clone(),
        ..Default::default()
    };
    let registered = actor.nick.map_or(false, |n| m.users.contains_key(n)) && actor.info.authenticated;
    if !registered {
        return step_unregistered(m, cfg, actor, &verb, p, e);
    }
    let me = actor.nick.unwrap().to_string();
    let src = m.users[&me].source.clone();
    let multi = actor.info.multi_prefix;
    match verb.as_str() {
        "PRIVMSG" | "NOTICE" => {
            if p.len() < 2 {
                return None;
            }
            let notice = verb == "NOTICE";
            let text = p[1].clone();
            let mut seen = BTreeSet::new();
            for t in p[0].split(',') {
                if !seen.insert(t.to_string()) {
                    continue;
                }
                if let Some((st, chn)) = split_status(t) {
                    match m.chans.get(chn) {
                        None => {
                            if !notice {
                                e.actor.push(num("403", &[chn]));
                            }
                        }
                        Some(ch) => {
                            let mem = ch.members.get(&me);
                            let can = (mem.is_some() || (!ch.fnn && !ch.fs))
                                && !ch.banned(&src)
                                && (!ch.fm || mem.map_or(false, |x| x.ge_voice()));
                            if !can {
                                if !notice {
                                    e.actor.push(num("404", &[chn]));
                                }
                            } else {
                                for (n, mm) in &ch.members {
                                    if n == &me {
                                        continue;
                                    }
                                    if st.is_empty() || st.iter().any(|l| mm.has(*l)) {
                                        e.to.entry(n.clone()).or_default().push(relay(&src, &verb, &[t, &text]));
                                    }
                                }
                            }
                        }
                    }
                } else if valid_nick_syntax(t) {
                    match m.users.get(t) {
                        Some(u) => {
                            if t == me {
                                // statement: "no copy reaches ... the sender included" vs.
                                // "the one user currently owning that nickname": 0 or 1 copy accepted
                                e.actor.push(relay(&src, &verb, &[t, &text]).may());
                            } else {
                                e.to.entry(t.to_string()).or_default().push(relay(&src, &verb, &[t, &text]));
                            }
                            if !notice {
                                if let Some(a) = &u.away {
                                    e.actor.push(num("301", &[t, a]));
                                }
                            }
                        }
                        None => {
                            if !notice {
                                e.actor.push(num("401", &[t]));
                            }
                        }
                    }
                } else {
                    return None; // syntactically invalid target: C13's business
                }
            }
            Some(e)
        }
        "JOIN" => {
            if p.is_empty() {
                return None;
            }
            let chans: Vec<&str> = p[0].split(',').collect();
            let keys: Option<Vec<&str>> = p.get(1).map(|k| k.split(',').collect());
            if let Some(k) = &keys {
                if k.len() != chans.len() {
                    return None;
                }
            }
            let mut uniq = BTreeSet::new();
            for c in &chans {
                if !valid_chan_syntax(c) || !uniq.insert(*c) {
                    return None; // invalid or repeated names: outside the statement
                }
            }
            let mut grp = 0u32;
            for (i, chn) in chans.iter().enumerate() {
                let joined_now = e.next.chans_of(&me).len();
                let quota_ok = cfg.max_joins.map_or(true, |mj| joined_now < mj);
                let exists = e.next.chans.contains_key(*chn);
                if exists {
                    let ch = e.next.chans.get(*chn).unwrap().clone();
                    if ch.members.contains_key(&me) {
                        // already a member: outside the statement; nothing may change,
                        // replies unchecked
                        for code in ["405", "471", "473", "474", "475", "443"] {
                            e.actor.push(num_any(code).may());
                        }
                        continue;
                    }
                    let key_ok = match &ch.key {
                        None => true,
                        Some(k) => keys.as_ref().map_or(false, |ks| ks[i] == k),
                    };
                    let ban_ok = !ch.banned(&src);
                    let inv_ok = !ch.fi || m.users[&me].invited.contains(*chn) && e.next.users[&me].invited.contains(*chn) || ch.invex.iter().any(|x| glob(x, &src));
                    let lim_ok = ch.limit.map_or(true, |l| ch.members.len() < l);
                    if key_ok && ban_ok && inv_ok && lim_ok && quota_ok {
                        // accepted
                        let mut mm = MMember::default();
                        if ch.precfg {
                            mm.q = ch.def[0].contains(&me);
                            mm.a = ch.def[1].contains(&me);
                            mm.o = ch.def[2].contains(&me);
                            mm.h = ch.def[3].contains(&me);
                            mm.v = ch.def[4].contains(&me);
                        }
                        for n in ch.members.keys() {
                            e.to.entry(n.clone()).or_default().push(relay(&src, "JOIN", &[chn]));
                        }
                        e.actor.push(relay(&src, "JOIN", &[chn]));
                        let nc = e.next.chans.get_mut(*chn).unwrap();
                        nc.members.insert(me.clone(), mm);
                        e.next.users.get_mut(&me).unwrap().invited.remove(*chn);
                        if let Some((t, _)) = &ch.topic {
                            e.actor.push(num("332", &[chn, t]));
                            e.actor.push(num_any("333").may());
                        }
                        exp_names(&e.next, chn, &me, multi, &mut e.actor);
                    } else {
                        grp += 1;
                        if !key_ok {
                            e.actor.push(num("475", &[chn]).one_of(grp));
                        }
                        if !ban_ok {
                            e.actor.push(num("474", &[chn]).one_of(grp));
                        }
                        if !inv_ok {
                            e.actor.push(num("473", &[chn]).one_of(grp));
                        }
                        if !lim_ok {
                            e.actor.push(num("471", &[chn]).one_of(grp));
                        }
                        if !quota_ok {
                            e.actor.push(num("405", &[chn]).one_of(grp));
                        }
                    }
                } else if quota_ok {
                    let mut ch = MChan::default();
                    ch.members.insert(
                        me.clone(),
                        MMember {
                            q: true,
                            o: true,
                            ..Default::default()
                        },
                    );
                    e.next.chans.insert(chn.to_string(), ch);
                    e.next.users.get_mut(&me).unwrap().invited.remove(*chn);
                    e.actor.push(relay(&src, "JOIN", &[chn]));
                    exp_names(&e.next, chn, &me, multi, &mut e.actor);
                } else {
                    e.actor.push(num("405", &[chn]));
                }
            }
            Some(e)
        }
        "PART" => {
            if p.is_empty() {
                return None;
            }
            let mut uniq = BTreeSet::new();
            let mut grp = 2000u32;
            for chn in p[0].split(',') {
                if !valid_chan_syntax(chn) || !uniq.insert(chn) {
                    return None;
                }
                grp += 1;
                match e.next.chans.get(chn).cloned() {
                    // no such channel / not on that channel: both are true of a missing channel
                    None => refuse(&mut e, grp, vec![num("403", &[chn]), num("442", &[chn])]),
                    Some(ch) => {
                        if !ch.members.contains_key(&me) {
                            e.actor.push(num("442", &[chn]));
                        } else {
                            let mut params = vec![chn];
                            if let Some(r) = p.get(1) {
                                params.push(r.as_str());
                            }
                            for n in ch.members.keys() {
                                let l = relay(&src, "PART", &params);
                                if n == &me {
                                    e.actor.push(l);
                                } else {
                                    e.to.entry(n.clone()).or_default().push(l);
                                }
                            }
                            e.next.leave(chn, &me);
                        }
                    }
                }
            }
            Some(e)
        }
        "KICK" => {
            if p.len() < 2 || !valid_chan_syntax(&p[0]) {
                return None;
            }
            let chn = p[0].as_str();
            let victims: Vec<&str> = p[1].split(',').collect();
            let mut uniq = BTreeSet::new();
            for v in &victims {
                if !valid_nick_syntax(v) || !uniq.insert(*v) {
                    return None; // repeated names: only "must not crash" (C05)
                }
            }
            let ch = match m.chans.get(chn) {
                None => {
                    refuse(&mut e, 1, vec![num("403", &[chn]), num("442", &[chn])]);
                    return Some(e);
                }
                Some(c) => c.clone(),
            };
            // further reasons that hold at the same time may be named instead
            let absent: Vec<ExpLine> = victims.iter().filter(|v| !ch.members.contains_key(**v)).map(|v| num("441", &[v, chn])).collect();
            let mine = match ch.members.get(&me) {
                None => {
                    let mut r = vec![num("442", &[chn]), num("482", &[chn])];
                    r.extend(absent);
                    refuse(&mut e, 1, r);
                    return Some(e);
                }
                Some(x) => *x,
            };
            if !mine.ge_halfop() {
                let mut r = vec![num("482", &[chn])];
                r.extend(absent);
                refuse(&mut e, 1, r);
                return Some(e);
            }
            let only_half = !mine.ge_op();
            let mut kicked = vec![];
            let mut grp = 1000u32;
            for v in &victims {
                match ch.members.get(*v) {
                    None => {
                        grp += 1;
                        e.actor.push(num("441", &[v, chn]).one_of(grp));
                        if !m.users.contains_key(*v) {
                            e.actor.push(num("401", &[v]).one_of(grp));
                        }
                    }
                    Some(vm) => {
                        if vm.ge_protected() || (only_half && vm.ge_halfop()) {
                            // refused; the statement does not name the numeric
                            grp += 1;
                            e.actor.push(num_any("972").one_of(grp));
                            e.actor.push(num("482", &[chn]).one_of(grp));
                        } else {
                            kicked.push(v.to_string());
                        }
                    }
                }
            }
            for v in &kicked {
                e.next.leave(chn, v);
            }
            let remaining: BTreeSet<String> = e.next.chans.get(chn).map(|c| c.members.keys().cloned().collect()).unwrap_or_default();
            for v in &kicked {
                let mut params: Vec<P> = vec![P::Is(chn.to_string()), P::Is(v.clone())];
                match p.get(2) {
                    Some(c) => params.push(P::Is(c.clone())),
                    None => params.push(P::Rest),
                }
                let mk = |req: Req| ExpLine {
                    prefix: Some(src.clone()),
                    cmd: "KICK".into(),
                    params: params.clone(),
                    req,
                };
                // remaining members and the victim must see it; other victims of the
                // same command may (they were still members when it was issued)
                let mut rcpts: BTreeMap<String, Req> = BTreeMap::new();
                for n in &remaining {
                    rcpts.insert(n.clone(), Req::Must);
                }
                rcpts.insert(v.clone(), Req::Must);
                for o in &kicked {
                    rcpts.entry(o.clone()).or_insert(Req::May);
                }
                for (n, r) in rcpts {
                    if n == me {
                        e.actor.push(mk(r));
                    } else {
                        e.to.entry(n).or_default().push(mk(r));
                    }
                }
            }
            Some(e)
        }
        "TOPIC" => {
            if p.is_empty() || !valid_chan_syntax(&p[0]) {
                return None;
            }
            let chn = p[0].as_str();
            let ch = match m.chans.get(chn) {
                None => {
                    refuse(&mut e, 1, vec![num("403", &[chn]), num("442", &[chn])]);
                    return Some(e);
                }
                Some(c) => c.clone(),
            };
            match p.get(1) {
                None => {
                    // query
                    if !ch.members.contains_key(&me) {
                        // statement silent about outsiders: 442 or the topic
                        e.actor_unchecked = true;
                    } else if let Some((t, _)) = &ch.topic {
                        e.actor.push(num("332", &[chn, t]));
                        e.actor.push(num_any("333").may());
                    } else {
                        e.actor.push(num("331", &[chn]));
                    }
                }
                Some(t) => {
                    match ch.members.get(&me) {
                        None => {
                            let mut r = vec![num("442", &[chn])];
                            if ch.ft {
                                r.push(num("482", &[chn]));
                            }
                            refuse(&mut e, 1, r);
                        }
                        Some(mine) => {
                            if ch.ft && !mine.ge_halfop() {
                                e.actor.push(num("482", &[chn]));
                            } else {
                                let nc = e.next.chans.get_mut(chn).unwrap();
                                nc.topic = if t.is_empty() { None } else { Some((t.clone(), me.clone())) };
                                for n in ch.members.keys() {
                                    let l = relay(&src, "TOPIC", &[chn, t]);
                                    if n == &me {
                                        e.actor.push(l);
                                    } else {
                                        e.to.entry(n.clone()).or_default().push(l);
                                    }
                                }
                            }
                        }
                    }
                }
            }
            Some(e)
        }
        "INVITE" => {
            if p.len() < 2 || !valid_nick_syntax(&p[0]) || !valid_chan_syntax(&p[1]) {
                return None;
            }
            let (nick, chn) = (p[0].as_str(), p[1].as_str());
            // every reason for a refusal that applies; the statement does not rank them
            let mut reasons: Vec<ExpLine> = vec![];
            if !m.users.contains_key(nick) {
                reasons.push(num("401", &[nick]));
            }
            match m.chans.get(chn) {
                None => {
                    reasons.push(num("403", &[chn]));
                    reasons.push(num("442", &[chn]));
                }
                Some(ch) => {
                    if ch.members.contains_key(nick) {
                        reasons.push(num("443", &[nick, chn]));
                    }
                    match ch.members.get(&me) {
                        None => reasons.push(num("442", &[chn])),
                        Some(mine) => {
                            if ch.fi && !mine.o {
                                if mine.ge_op() {
                                    // founder/protected without the operator flag: "an operator" is
                                    // ambiguous here; either outcome is accepted
                                    return None;
                                }
                                reasons.push(num("482", &[chn]));
                            }
                        }
                    }
                }
            }
            if !reasons.is_empty() {
                refuse(&mut e, 1, reasons);
                return Some(e);
            }
            e.next.users.get_mut(nick).unwrap().invited.insert(chn.to_string());
            e.actor.push(num("341", &[nick, chn]));
            let l = relay(&src, "INVITE", &[nick, chn]);
            if nick == me {
                e.actor.push(l);
            } else {
                e.to.entry(nick.to_string()).or_default().push(l);
            }
            Some(e)
        }
        "MODE" => {
            if p.is_empty() {
                return None;
            }
            if valid_chan_syntax(&p[0]) {
                step_mode_channel(m, &me, &src, p, e)
            } else {
                step_mode_user(m, cfg, &me, &src, actor, p, e)
            }
        }
        "NICK" => {
            if p.is_empty() {
                return None;
            }
            let new = p[0].as_str();
            if new.chars().count() > NICKLEN {
                // beyond the advertised NICKLEN: accepting the whole nickname and refusing it
                // are both within the statements; what must not happen (two owners, a user
                // nobody owns) is left to the state oracles
                return None;
            }
            if !valid_nick_syntax(new) {
                // refused with an error, nothing changes
                e.actor.push(ExpLine {
                    prefix: None,
                    cmd: "ERROR".into(),
                    params: vec![P::Rest],
                    req: Req::OneOf(1),
                });
                e.actor.push(num_any("432").one_of(1));
                return Some(e);
            }
            if new == me {
                e.actor.push(relay(&src, "NICK", &[new]).may());
                return Some(e);
            }
            if m.users.contains_key(new) {
                e.actor.push(num("433", &[new]));
                return Some(e);
            }
            e.next.rename_user(&me, new);
            for n in m.users.keys() {
                let l = relay(&src, "NICK", &[new]);
                if n == &me {
                    e.actor.push(l);
                } else if m.share_channel(n, &me) {
                    e.to.entry(n.clone()).or_default().push(l);
                } else {
                    e.to.entry(n.clone()).or_default().push(l.may());
                }
            }
            Some(e)
        }
        "AWAY" => {
            match p.get(0) {
                Some(t) if !t.is_empty() => {
                    e.next.users.get_mut(&me).unwrap().away = Some(t.clone());
                    e.actor.push(num_any("306"));
                }
                Some(_) => return None,
                None => {
                    e.next.users.get_mut(&me).unwrap().away = None;
                    e.actor.push(num_any("305"));
                }
            }
            Some(e)
        }
        "OPER" => {
            if p.len() < 2 {
                return None;
            }
            // a name configured more than once: which entry "that operator" is, is the server's choice
            if cfg.opers.iter().filter(|o| o.name == p[0]).count() > 1 {
                return None;
            }
            match cfg.opers.iter().find(|o| o.name == p[0]) {
                None => {
                    e.actor.push(num_any("491").one_of(1));
                    e.actor.push(num_any("464").one_of(1));
                }
                Some(oc) => {
                    let bad_pw = oc.password != p[1];
                    let bad_mask = oc.mask.as_ref().map_or(false, |mk| !glob(mk, &src));
                    if bad_pw || bad_mask {
                        let mut r = vec![];
                        if bad_pw {
                            r.push(num_any("464"));
                        }
                        if bad_mask {
                            r.push(num_any("491"));
                        }
                        refuse(&mut e, 1, r);
                    } else {
                        e.next.users.get_mut(&me).unwrap().o = true;
                        e.actor.push(num_any("381"));
                    }
                }
            }
            Some(e)
        }
        "KILL" => {
            if p.len() < 2 || !valid_nick_syntax(&p[0]) {
                return None;
            }
            let u = &m.users[&me];
            if !u.o {
                e.actor.push(num_any("481"));
                return Some(e);
            }
            let victim = p[0].as_str();
            if !m.users.contains_key(victim) {
                e.actor.push(num("401", &[victim]));
                return Some(e);
            }
            if m.users[victim].killed {
                return None; // second notice for a user already being removed
            }
            let l = ExpLine {
                prefix: None,
                cmd: "ERROR".into(),
                params: vec![P::Any],
                req: Req::Must,
            };
            if victim == me {
                e.actor.push(l);
                e.actor_closed = true;
            } else {
                e.to.entry(victim.to_string()).or_default().push(l);
                e.closed.insert(victim.to_string());
            }
            e.next.erase_user(victim);
            Some(e)
        }
        "DIE" | "SQUIT" => {
            if verb == "SQUIT" {
                if p.len() < 2 {
                    return None;
                }
                if p[0] != cfg.server {
                    if !m.users[&me].o {
                        e.actor.push(num_any("481").one_of(1));
                        e.actor.push(num_any("483").one_of(1));
                        e.actor.push(num_any("400").one_of(1));
                    } else {
                        e.actor_unchecked = true;
                    }
                    return Some(e);
                }
            }
            if !m.users[&me].o {
                e.actor.push(num_any("481").one_of(1));
                e.actor.push(num_any("483").one_of(1));
                return Some(e);
            }
            for n in m.users.keys() {
                let l = ExpLine {
                    prefix: None,
                    cmd: "ERROR".into(),
                    params: vec![P::Any],
                    req: Req::Must,
                };
                if m.users[n].killed {
                    continue;
                }
                if n == &me {
                    e.actor.push(l);
                    e.actor_closed = true;
                } else {
                    e.to.entry(n.clone()).or_default().push(l);
                    e.closed.insert(n.clone());
                }
            }
            let all: Vec<String> = m.users.keys().cloned().collect();
            for n in all {
                e.next.erase_user(&n);
            }
            e.next.server_quit_fired = true;
            Some(e)
        }
        "WALLOPS" => {
            if p.is_empty() {
                return None;
            }
            let u = &m.users[&me];
            if !(u.o || u.lo) {
                e.actor.push(num_any("481"));
                return Some(e);
            }
            for (n, x) in &m.users {
                if x.w {
                    let l = relay(&src, "WALLOPS", &[&p[0]]);
                    if n == &me {
                        e.actor.push(l);
                    } else {
                        e.to.entry(n.clone()).or_default().push(l);
                    }
                }
            }
            Some(e)
        }
        "STATS" => {
            if p.is_empty() {
                return None;
            }
            let u = &m.users[&me];
            if !(u.o || u.lo) {
                e.actor.push(num_any("481"));
            } else {
                e.actor_unchecked = true;
            }
            Some(e)
        }
        "QUIT" => {
            e.actor.push(ExpLine {
                prefix: None,
                cmd: "ERROR".into(),
                params: vec![P::Rest],
                req: Req::May,
            });
            e.actor_closed = true;
            e.next.erase_user(&me);
            Some(e)
        }
        "PING" => {
            if p.is_empty() {
                return None;
            }
            e.actor.push(ExpLine {
                prefix: None,
                cmd: "PONG".into(),
                params: vec![P::Any, P::Is(p[0].clone())],
                req: Req::Must,
            });
            Some(e)
        }
        "PONG" => Some(e),
        "NAMES" => {
            match p.get(0) {
                Some(list) => {
                    for chn in list.split(',') {
                        if !valid_chan_syntax(chn) {
                            return None;
                        }
                        exp_names(m, chn, &me, multi, &mut e.actor);
                    }
                }
                None => {
                    for (chn, ch) in &m.chans {
                        let viewer_in = ch.members.contains_key(&me);
                        if !ch.fs || viewer_in {
                            let set = names_set(m, ch, &me, multi);
                            if !set.is_empty() {
                                e.actor.push(ExpLine {
                                    prefix: None,
                                    cmd: "353".into(),
                                    params: vec![P::Any, P::Is(chn.clone()), P::Set(set)],
                                    req: Req::Must,
                                });
                            }
                        }
                    }
                    e.actor.push(num_any("366"));
                }
            }
            Some(e)
        }
        "LIST" => {
            if p.len() > 1 {
                return None;
            }
            e.actor.push(num_any("321").may());
            let wanted: Option<Vec<&str>> = p.get(0).map(|l| l.split(',').collect());
            for (chn, ch) in &m.chans {
                if ch.fs {
                    // secret channels: C12's business; tolerate either for members
                    if ch.members.contains_key(&me) {
                        e.actor.push(num("322", &[chn]).may());
                    }
                    continue;
                }
                if let Some(w) = &wanted {
                    if !w.contains(&chn.as_str()) {
                        continue;
                    }
                }
                let topic = ch.topic.as_ref().map(|t| t.0.clone()).unwrap_or_default();
                e.actor.push(ExpLine {
                    prefix: None,
                    cmd: "322".into(),
                    params: vec![P::Is(chn.clone()), P::Is(ch.members.len().to_string()), P::Is(topic)],
                    req: Req::Must,
                });
            }
            e.actor.push(num_any("323"));
            Some(e)
        }
        "LUSERS" => {
            let total = m.users.len();
            let inv = m.users.values().filter(|u| u.i).count();
            let ops = m.users.values().filter(|u| u.o || u.lo).count();
            e.actor.push(ExpLine {
                prefix: None,
                cmd: "251".into(),
                params: vec![P::Is(format!("There are {} users and {} invisible on 1 servers", total - inv, inv))],
                req: Req::Must,
            });
            e.actor.push(num("252", &[&ops.to_string()]));
            e.actor.push(num_any("253").may());
            e.actor.push(num("254", &[&m.chans.len().to_string()]));
            e.actor.push(ExpLine {
                prefix: None,
                cmd: "255".into(),
                params: vec![P::Is(format!("I have {} clients and 1 servers", total))],
                req: Req::Must,
            });
            e.actor.push(num("265", &[&total.to_string(), &m.max_users.to_string()]));
            e.actor.push(num("266", &[&total.to_string(), &m.max_users.to_string()]));
            Some(e)
        }
        "ISON" => {
            if p.is_empty() {
                return None;
            }
            let names: Vec<String> = p.iter().flat_map(|x| x.split(' ')).filter(|x| !x.is_empty()).map(|x| x.to_string()).collect();
            let on: BTreeSet<String> = names.iter().filter(|n| m.users.contains_key(*n)).cloned().collect();
            let cnt = names.iter().filter(|n| m.users.contains_key(*n)).count();
            if cnt != on.len() {
                return None; // repeated names: multiplicity not specified
            }
            e.actor.push(ExpLine {
                prefix: None,
                cmd: "303".into(),
                params: vec![P::Set(on)],
                req: Req::Must,
            });
            Some(e)
        }
        "USERHOST" => {
            if p.is_empty() {
                return None;
            }
            let mut set = BTreeSet::new();
            let mut cnt = 0;
            for n in p.iter() {
                if let Some(u) = m.users.get(n) {
                    cnt += 1;
                    set.insert(format!(
                        "{}{}={}~{}@{}",
                        n,
                        if u.o || u.lo { "*" } else { "" },
                        if u.away.is_some() { '-' } else { '+' },
                        u.name,
                        u.host
                    ));
                }
            }
            if cnt != set.len() {
                return None;
            }
            e.actor.push(ExpLine {
                prefix: None,
                cmd: "302".into(),
                params: vec![P::Set(set)],
                req: Req::Must,
            });
            Some(e)
        }
        // capability negotiation by a registered client changes nothing anybody else
        // can see (the replies themselves are not specified by any property)
        "CAP" if !p.is_empty() => {
            e.actor_unchecked = true;
            Some(e)
        }
        // registration commands repeated by a registered client are refused: the user stays
        // what its registration made it
        "USER" | "PASS" => {
            e.actor_unchecked = true;
            Some(e)
        }
        _ => None,
    }
}

fn step_mode_channel(m: &M, me: &str, src: &str, p: &[String], mut e: Exp) -> Option<Exp> {
    let chn = p[0].as_str();
    let ch = match m.chans.get(chn) {
        None => {
            refuse(&mut e, 1, vec![num("403", &[chn]), num("442", &[chn])]);
            return Some(e);
        }
        Some(c) => c.clone(),
    };
    let mine = match ch.members.get(me) {
        None => {
            if p.len() == 1 {
                e.actor_unchecked = true; // query by an outsider: statement silent
            } else {
                e.actor.push(num("442", &[chn]).one_of(1));
                e.actor.push(num("482", &[chn]).one_of(1));
            }
            return Some(e);
        }
        Some(x) => *x,
    };
    if p.len() == 1 {
        e.actor.push(num_any("324"));
        e.actor.push(num_any("329").may());
        return Some(e);
    }
    // parse requested atomic changes: (sign, letter, arg)
    #[derive(Clone, Debug, PartialEq, Eq, PartialOrd, Ord)]
    struct Ch {
        plus: bool,
        letter: char,
        arg: Option<String>,
    }
    let mut req: Vec<Ch> = vec![];
    let mut list_queries = vec![];
    let mut i = 1;
    while i < p.len() {
        let ms = &p[i];
        if !(ms.starts_with('+') || ms.starts_with('-')) {
            return None;
        }
        // arguments of this mode string: following params until the next mode string
        let mut args = vec![];
        let mut j = i + 1;
        while j < p.len() && !(p[j].starts_with('+') || p[j].starts_with('-')) {
            args.push(p[j].clone());
            j += 1;
        }
        let mut ai = 0;
        let mut plus = true;
        for c in ms.chars() {
            match c {
                '+' => plus = true,
                '-' => plus = false,
                'b' | 'e' | 'I' => {
                    if ai < args.len() {
                        req.push(Ch { plus, letter: c, arg: Some(normalize_mask(&args[ai])) });
                        ai += 1;
                    } else {
                        list_queries.push(c);
                    }
                }
                'q' | 'a' | 'o' | 'h' | 'v' => {
                    if ai < args.len() {
                        req.push(Ch { plus, letter: c, arg: Some(args[ai].clone()) });
                        ai += 1;
                    } else {
                        return None;
                    }
                }
                'k' | 'l' => {
                    if plus {
                        if ai < args.len() {
                            if c == 'l' && args[ai].parse::<usize>().is_err() {
                                return None;
                            }
                            req.push(Ch { plus, letter: c, arg: Some(args[ai].clone()) });
                            ai += 1;
                        } else {
                            return None;
                        }
                    } else {
                        req.push(Ch { plus, letter: c, arg: None });
                    }
                }
                'i' | 'm' | 't' | 'n' | 's' => req.push(Ch { plus, letter: c, arg: None }),
                _ => return None,
            }
        }
        if ai != args.len() {
            return None; // surplus arguments: outside the statement
        }
        i = j;
    }
    // evaluate: rank is the actor's rank when the command is issued
    let mut permitted: Vec<Ch> = vec![];
    let mut effective: Vec<Ch> = vec![];
    let mut refused_rank = false;
    let nc = e.next.chans.get_mut(chn).unwrap();
    for c in &req {
        let allowed = match c.letter {
            'q' => mine.q,
            'a' => mine.ge_protected(),
            'o' | 'h' => mine.ge_op(),
            _ => mine.ge_halfop(),
        };
        if !allowed {
            refused_rank = true;
            if let (true, Some(t)) = (matches!(c.letter, 'q' | 'a' | 'o' | 'h' | 'v'), c.arg.as_ref()) {
                if !nc.members.contains_key(t) {
                    e.actor.push(num("441", &[t, chn]).may());
                    e.actor.push(num("401", &[t]).may());
                }
            }
            continue;
        }
        match c.letter {
            'q' | 'a' | 'o' | 'h' | 'v' => {
                let t = c.arg.as_ref().unwrap();
                match nc.members.get_mut(t) {
                    None => {
                        e.actor.push(num("441", &[t, chn]).may());
                        e.actor.push(num("401", &[t]).may());
                    }
                    Some(tm) => {
                        if tm.has(c.letter) != c.plus {
                            effective.push(c.clone());
                        }
                        tm.set(c.letter, c.plus);
                        permitted.push(c.clone());
                    }
                }
            }
            'b' | 'e' | 'I' => {
                let set = match c.letter {
                    'b' => &mut nc.ban,
                    'e' => &mut nc.except,
                    _ => &mut nc.invex,
                };
                let a = c.arg.clone().unwrap();
                let changed = if c.plus { set.insert(a) } else { set.remove(&a) };
                if changed {
                    effective.push(c.clone());
                }
                permitted.push(c.clone());
            }
            'k' => {
                let new = if c.plus { c.arg.clone() } else { None };
                if nc.key != new {
                    effective.push(c.clone());
                }
                nc.key = new;
                permitted.push(c.clone());
            }
            'l' => {
                let new = if c.plus { c.arg.as_ref().and_then(|a| a.parse().ok()) } else { None };
                if nc.limit != new {
                    effective.push(c.clone());
                }
                nc.limit = new;
                permitted.push(c.clone());
            }
            f => {
                if nc.flag(f) != c.plus {
                    effective.push(c.clone());
                }
                nc.set_flag(f, c.plus);
                permitted.push(c.clone());
            }
        }
    }
    if refused_rank {
        e.actor.push(num("482", &[chn]));
        // the server may repeat it per refused letter
        for _ in 0..req.len() * 2 {
            e.actor.push(num("482", &[chn]).may());
        }
    }
    for q in list_queries {
        let (item, end) = match q {
            'b' => ("367", "368"),
            'e' => ("348", "349"),
            _ => ("346", "347"),
        };
        let set = match q {
            'b' => &ch.ban,
            'e' => &ch.except,
            _ => &ch.invex,
        };
        for _ in 0..(set.len() + req.len()) {
            e.actor.push(num_any(item).may());
        }
        e.actor.push(num_any(end));
    }
    // announcement: one MODE line to every member; E subset-of announced subset-of P
    e.to.clear();
    let ann = ModeAnnounce {
        chan: chn.to_string(),
        src: src.to_string(),
        permitted: permitted.iter().map(|c| (c.plus, c.letter, c.arg.clone())).collect(),
        effective: effective.iter().map(|c| (c.plus, c.letter, c.arg.clone())).collect(),
        members: ch.members.keys().cloned().collect(),
    };
    e.mode_announce = Some(ann);
    Some(e)
}

/// The MODE announcement is checked structurally (see check::check_mode_announce).
#[derive(Clone, Debug, Default)]
pub struct ModeAnnounce {
    pub chan: String,
    pub src: String,
    pub permitted: Vec<(bool, char, Option<String>)>,
    pub effective: Vec<(bool, char, Option<String>)>,
    pub members: Vec<String>,
}

/// Parse "MODE #c +im-t+b x" style parameter lists (announcement form) into atoms.
pub fn parse_mode_atoms(params: &[String]) -> Option<Vec<(bool, char, Option<String>)>> {
    let mut out = vec![];
    let mut i = 0;
    while i < params.len() {
        let ms = &params[i];
        if !(ms.starts_with('+') || ms.starts_with('-')) {
            return None;
        }
        let mut j = i + 1;
        let mut args = vec![];
        while j < params.len() && !(params[j].starts_with('+') || params[j].starts_with('-')) {
            args.push(params[j].clone());
            j += 1;
        }
        let mut ai = 0;
        let mut plus = true;
        for c in ms.chars() {
            match c {
                '+' => plus = true,
                '-' => plus = false,
                'b' | 'e' | 'I' | 'q' | 'a' | 'o' | 'h' | 'v' => {
                    if ai >= args.len() {
                        return None;
                    }
                    out.push((plus, c, Some(args[ai].clone())));
                    ai += 1;
                }
                'k' | 'l' => {
                    if plus {
                        if ai >= args.len() {
                            return None;
                        }
                        out.push((plus, c, Some(args[ai].clone())));
                        ai += 1;
                    } else {
                        // "-k key" is tolerated
                        if c == 'k' && ai < args.len() {
                            ai += 1;
                        }
                        out.push((plus, c, None));
                    }
                }
                _ => out.push((plus, c, None)),
            }
        }
        if ai != args.len() {
            return None;
        }
        i = j;
    }
    Some(out)
}

fn step_mode_user(m: &M, cfg: &SpecCfg, me: &str, src: &str, actor: &Actor, p: &[String], mut e: Exp) -> Option<Exp> {
    let target = p[0].as_str();
    if !valid_nick_syntax(target) {
        return None;
    }
    if target != me {
        if m.users.contains_key(target) {
            e.actor.push(num_any("502"));
        } else {
            e.actor.push(num("401", &[target]).one_of(1));
            e.actor.push(num_any("502").one_of(1));
        }
        return Some(e);
    }
    if p.len() == 1 {
        let u = &m.users[me];
        let mut s = "+".to_string();
        for (f, c) in [(u.i, 'i'), (u.o, 'o'), (u.lo, 'O'), (u.r, 'r'), (u.w, 'w')] {
            if f {
                s.push(c);
            }
        }
        e.actor.push(num("221", &[&s]));
        return Some(e);
    }
    let mut set_s = String::new();
    let mut unset_s = String::new();
    let mut priv_err = false;
    for ms in &p[1..] {
        if !(ms.starts_with('+') || ms.starts_with('-')) {
            return None;
        }
        let mut plus = true;
        for c in ms.chars() {
            let u = e.next.users.get_mut(me).unwrap();
            match c {
                '+' => plus = true,
                '-' => plus = false,
                'i' => {
                    if u.i != plus {
                        u.i = plus;
                        if plus { set_s.push('i') } else { unset_s.push('i') }
                    }
                }
                'w' => {
                    if u.w != plus {
                        u.w = plus;
                        if plus { set_s.push('w') } else { unset_s.push('w') }
                    }
                }
                'o' => {
                    if plus {
                        if !u.o {
                            priv_err = true; // operator status only through OPER
                        }
                    } else if u.o {
                        u.o = false;
                        unset_s.push('o');
                    }
                }
                'O' => {
                    if plus {
                        if !u.lo {
                            priv_err = true;
                        }
                    } else if u.lo || u.o {
                        // a global operator is a local operator too: resigning the
                        // lower privilege resigns operator status altogether (§4.0)
                        u.lo = false;
                        u.o = false;
                        unset_s.push('O');
                    }
                }
                'r' => {
                    if plus {
                        if !u.r {
                            // "predefined users": the registered mode belongs to sessions whose USER
                            // name is a configured user (decided from the configuration, not from the
                            // connection's own flag)
                            if cfg.users.iter().any(|x| x.name == u.name) {
                                u.r = true;
                                set_s.push('r');
                            } else {
                                priv_err = true;
                            }
                        }
                    } else if u.r {
                        u.r = false;
                        unset_s.push('r');
                        e.actor.push(num_any("484").may());
                    }
                }
                _ => return None,
            }
        }
    }
    if priv_err {
        e.actor.push(num_any("481"));
        e.actor.push(num_any("481").may());
        e.actor.push(num_any("481").may());
    }
    if !set_s.is_empty() || !unset_s.is_empty() {
        e.user_mode_announce = Some((src.to_string(), me.to_string(), set_s, unset_s));
    }
    Some(e)
}

fn step_unregistered(m: &M, cfg: &SpecCfg, actor: &Actor, verb: &str, p: &[String], mut e: Exp) -> Option<Exp> {
    let info = actor.info;
    if info.authenticated {
        // a connection that believes it is registered but owns no user: never legal
        return None;
    }
    let mut nick = info.nick.clone();
    let mut name = info.name.clone();
    let mut realname = info.realname.clone().unwrap_or_default();
    let mut pass = info.password.clone();
    let mut cap_open = info.caps_negotation;
    let mut attempt = false;
    match verb {
        "CAP" => {
            let sub = p.get(0).map(|s| s.to_ascii_uppercase()).unwrap_or_default();
            match sub.as_str() {
                "LS" | "REQ" => {
                    // any LS or REQ (also a refused one) opens the negotiation:
                    // registration is suspended until CAP END
                    e.actor_unchecked = true;
                    e.no_welcome = true;
                    e.cap_open_after = Some(true);
                    return Some(e);
                }
                "LIST" => {
                    // a query: an open negotiation stays open, a closed one closed
                    e.actor_unchecked = true;
                    e.no_welcome = true;
                    e.cap_open_after = Some(info.caps_negotation);
                    return Some(e);
                }
                "END" => {
                    cap_open = false;
                    attempt = true;
                }
                _ => return None,
            }
        }
        "AUTHENTICATE" => {
            e.actor_unchecked = true;
            return Some(e);
        }
        "PASS" => {
            if p.is_empty() {
                return None;
            }
            pass = Some(p[0].clone());
            attempt = true;
        }
        "NICK" => {
            if p.is_empty() {
                return None;
            }
            if p[0].chars().count() > NICKLEN {
                return None;
            }
            if !valid_nick_syntax(&p[0]) {
                e.actor_unchecked = true;
                return Some(e);
            }
            if m.users.contains_key(&p[0]) {
                e.actor.push(num("433", &[&p[0]]));
                return Some(e);
            }
            nick = Some(p[0].clone());
            attempt = true;
        }
        "USER" => {
            if p.len() < 4 {
                return None;
            }
            if !valid_nick_syntax(&p[0]) {
                e.actor_unchecked = true;
                return Some(e);
            }
            name = Some(p[0].clone());
            realname = p[3].clone();
            attempt = true;
        }
        "QUIT" => {
            e.actor.push(ExpLine { prefix: None, cmd: "ERROR".into(), params: vec![P::Rest], req: Req::May });
            e.actor_closed = true;
            return Some(e);
        }
        _ => {
            // every other command: exactly ERR_NOTREGISTERED, nothing changes
            e.actor.push(num_any("451"));
            return Some(e);
        }
    }
    if attempt {
        if let (Some(n), Some(u)) = (&nick, &name) {
            if !cap_open {
                let source = format!("{}!~{}@{}", n, u, info.hostname);
                let cu = cfg.users.iter().find(|x| &x.name == u);
                if let Some(cu) = cu {
                    if let Some(mk) = &cu.mask {
                        if !glob(mk, &source) {
                            e.actor.push(ExpLine { prefix: None, cmd: "ERROR:".into(), params: vec![P::Rest], req: Req::May });
                            e.actor.push(ExpLine { prefix: None, cmd: "ERROR".into(), params: vec![P::Rest], req: Req::May });
                            e.actor.push(num_any("464").may());
                            e.actor_close_optional = true;
                            e.no_welcome = true;
                            return Some(e);
                        }
                    }
                }
                let required = cu.and_then(|c| c.password.clone()).or(cfg.password.clone());
                if let Some(rq) = required {
                    if pass.as_ref() != Some(&rq) {
                        e.actor.push(num_any("464"));
                        // what else is said before the close is free
                        e.actor.push(ExpLine { prefix: None, cmd: "ERROR".into(), params: vec![P::Rest], req: Req::May });
                        e.actor_closed = true;
                        e.no_welcome = true;
                        return Some(e);
                    }
                }
                if m.users.contains_key(n) {
                    e.actor.push(num("433", &[n]));
                    e.no_welcome = true;
                    return Some(e);
                }
                // registration completes
                let u = MUser {
                    name: u.clone(),
                    host: info.hostname.clone(),
                    realname: realname.clone(),
                    source,
                    i: cfg.def_i,
                    o: cfg.def_o,
                    lo: cfg.def_lo,
                    r: cfg.def_r || cu.is_some(),
                    w: cfg.def_w,
                    away: None,
                    invited: BTreeSet::new(),
                    killed: false,
                };
                e.next.users.insert(n.clone(), u);
                if e.next.users.len() > e.next.max_users {
                    e.next.max_users = e.next.users.len();
                }
                e.welcome = true;
                return Some(e);
            }
        }
        // not complete yet: no reply expected besides nothing; what was supplied so
        // far is remembered for the completion attempt that follows
        e.no_welcome = true;
        e.reg_after = Some((nick.clone(), name.clone(), pass.clone()));
        if verb == "CAP" {
            e.cap_open_after = Some(false);
        }
        if verb == "CAP" {
            e.actor_unchecked = true;
        }
    }
    Some(e)
}
