//! Judging one executed step against the Spec, restricted to the projection a
//! property cares about.

use crate::canon::{is_numeric, parse_server_line, Msg};
use crate::spec::{self, describe, match_lines, render, Actor, Exp, ExpLine, SpecCfg, M};
use crate::state::verif::{ConnInfo, Snapshot};
use crate::world::Life;
use std::collections::{BTreeMap, BTreeSet};

/// Categories of abstract-state differences.
#[derive(Clone, Copy, Debug, PartialEq, Eq, PartialOrd, Ord, Hash)]
pub enum Cat {
    UserExistence,
    UserIdentity,
    UserModes,
    Away,
    Invites,
    Killed,
    ChanExistence,
    Membership,
    Ranks,
    ChanFlags,
    ChanLists,
    KeyLimit,
    Topic,
    ChanConfig,
    Hist,
    MaxUsers,
    ServerQuit,
}

pub const ALL_CATS: &[Cat] = &[
    Cat::UserExistence,
    Cat::UserIdentity,
    Cat::UserModes,
    Cat::Away,
    Cat::Invites,
    Cat::Killed,
    Cat::ChanExistence,
    Cat::Membership,
    Cat::Ranks,
    Cat::ChanFlags,
    Cat::ChanLists,
    Cat::KeyLimit,
    Cat::Topic,
    Cat::ChanConfig,
    Cat::Hist,
    Cat::MaxUsers,
    Cat::ServerQuit,
];

pub fn diff_m(exp: &M, got: &M) -> Vec<(Cat, String)> {
    let mut d = vec![];
    let eu: BTreeSet<&String> = exp.users.keys().collect();
    let gu: BTreeSet<&String> = got.users.keys().collect();
    if eu != gu {
        d.push((Cat::UserExistence, format!("users expected {:?} got {:?}", eu, gu)));
    }
    for (n, e) in &exp.users {
        if let Some(g) = got.users.get(n) {
            if (&e.name, &e.host, &e.realname, &e.source) != (&g.name, &g.host, &g.realname, &g.source) {
                d.push((Cat::UserIdentity, format!("user {} identity expected {:?} got {:?}", n, (&e.name, &e.host, &e.realname, &e.source), (&g.name, &g.host, &g.realname, &g.source))));
            }
            if (e.i, e.o, e.lo, e.r, e.w) != (g.i, g.o, g.lo, g.r, g.w) {
                d.push((Cat::UserModes, format!("user {} modes (i,o,O,r,w) expected {:?} got {:?}", n, (e.i, e.o, e.lo, e.r, e.w), (g.i, g.o, g.lo, g.r, g.w))));
            }
            if e.away != g.away {
                d.push((Cat::Away, format!("user {} away expected {:?} got {:?}", n, e.away, g.away)));
            }
            if e.invited != g.invited {
                d.push((Cat::Invites, format!("user {} invitations expected {:?} got {:?}", n, e.invited, g.invited)));
            }
            if e.killed != g.killed {
                d.push((Cat::Killed, format!("user {} kill-notice state expected {} got {}", n, e.killed, g.killed)));
            }
        }
    }
    let ec: BTreeSet<&String> = exp.chans.keys().collect();
    let gc: BTreeSet<&String> = got.chans.keys().collect();
    if ec != gc {
        d.push((Cat::ChanExistence, format!("channels expected {:?} got {:?}", ec, gc)));
    }
    for (n, e) in &exp.chans {
        if let Some(g) = got.chans.get(n) {
            let em: BTreeSet<&String> = e.members.keys().collect();
            let gm: BTreeSet<&String> = g.members.keys().collect();
            if em != gm {
                d.push((Cat::Membership, format!("channel {} members expected {:?} got {:?}", n, em, gm)));
            }
            for (u, er) in &e.members {
                if let Some(gr) = g.members.get(u) {
                    if er != gr {
                        d.push((Cat::Ranks, format!("channel {} member {} ranks expected {:?} got {:?}", n, u, er, gr)));
                    }
                }
            }
            if (e.fi, e.fm, e.fs, e.ft, e.fnn) != (g.fi, g.fm, g.fs, g.ft, g.fnn) {
                d.push((Cat::ChanFlags, format!("channel {} flags (i,m,s,t,n) expected {:?} got {:?}", n, (e.fi, e.fm, e.fs, e.ft, e.fnn), (g.fi, g.fm, g.fs, g.ft, g.fnn))));
            }
            if (&e.ban, &e.except, &e.invex) != (&g.ban, &g.except, &g.invex) {
                d.push((Cat::ChanLists, format!("channel {} lists (b,e,I) expected {:?} got {:?}", n, (&e.ban, &e.except, &e.invex), (&g.ban, &g.except, &g.invex))));
            }
            if (&e.key, &e.limit) != (&g.key, &g.limit) {
                d.push((Cat::KeyLimit, format!("channel {} key/limit expected {:?} got {:?}", n, (&e.key, &e.limit), (&g.key, &g.limit))));
            }
            // the topic is its text: whom the server records as the setter of a text (shown in
            // 333) is not constrained by any statement - a server may keep the first setter of a
            // text that is set again unchanged
            if e.topic.as_ref().map(|t| &t.0) != g.topic.as_ref().map(|t| &t.0) {
                d.push((Cat::Topic, format!("channel {} topic expected {:?} got {:?}", n, e.topic, g.topic)));
            }
            if (e.precfg, &e.def) != (g.precfg, &g.def) {
                d.push((Cat::ChanConfig, format!("channel {} configuration part changed", n)));
            }
        }
    }
    if exp.hist != got.hist {
        d.push((Cat::Hist, format!("nick history expected {:?} got {:?}", exp.hist, got.hist)));
    }
    if exp.max_users != got.max_users {
        d.push((Cat::MaxUsers, format!("high-water mark expected {} got {}", exp.max_users, got.max_users)));
    }
    if exp.server_quit_fired != got.server_quit_fired {
        d.push((Cat::ServerQuit, format!("server-quit signal expected {} got {}", exp.server_quit_fired, got.server_quit_fired)));
    }
    d
}

/// Everything observed around one client line.
#[derive(Clone, Debug)]
pub struct StepObs {
    pub act: crate::bfs::Act,
    pub pre: Snapshot,
    pub post: Snapshot,
    pub pre_infos: Vec<Option<ConnInfo>>,
    pub post_infos: Vec<Option<ConnInfo>>,
    pub pre_life: Vec<Life>,
    /// lines in flight per connection before the step
    pub pre_held: Vec<Vec<String>>,
    pub post_life: Vec<Life>,
    /// lines received per slot during the step
    pub lines: Vec<Vec<String>>,
}

#[derive(Clone, Debug)]
pub struct Focus {
    /// abstract-state categories whose difference is a violation
    pub cats: Vec<Cat>,
    /// compare lines delivered to non-actors
    pub relays: bool,
    /// restrict relay comparison to these verbs (None = all)
    pub relay_verbs: Option<Vec<&'static str>>,
    /// compare the actor's own lines
    pub actor: bool,
    /// restrict actor comparison to these commands/numerics (None = all)
    pub actor_codes: Option<Vec<&'static str>>,
    /// compare connection endings
    pub closes: bool,
}

impl Focus {
    pub fn all() -> Focus {
        Focus {
            cats: ALL_CATS.to_vec(),
            relays: true,
            relay_verbs: None,
            actor: true,
            actor_codes: None,
            closes: true,
        }
    }
    pub fn state_only(cats: &[Cat]) -> Focus {
        Focus {
            cats: cats.to_vec(),
            relays: false,
            relay_verbs: None,
            actor: false,
            actor_codes: None,
            closes: false,
        }
    }
}

#[derive(Clone, Debug)]
pub struct Finding {
    /// short stable signature (for known-findings matching)
    pub sig: String,
    pub detail: String,
}

fn slot_of_nick(infos: &[Option<ConnInfo>], life: &[Life], nick: &str) -> Option<usize> {
    for (i, inf) in infos.iter().enumerate() {
        if life[i] != Life::Live {
            continue;
        }
        if let Some(inf) = inf {
            if inf.authenticated && inf.nick.as_deref() == Some(nick) && !inf.has_sender {
                return Some(i);
            }
        }
    }
    None
}

pub fn parse_lines(lines: &[String]) -> Vec<Msg> {
    lines.iter().filter_map(|l| parse_server_line(l)).collect()
}

fn is_server_ping(server: &str, m: &Msg) -> bool {
    m.prefix.as_deref() == Some(server) && m.cmd == "PING"
}

/// Compare one step with the Spec. Returns findings (empty = conforms) and
/// whether the spec had an opinion at all.
pub fn check_step(cfg: &SpecCfg, obs: &StepObs, focus: &Focus) -> (Vec<Finding>, bool) {
    let mut out = vec![];
    let pre_m = M::from_snapshot(&obs.pre);
    use crate::bfs::Act;
    let (actor_slot, line): (usize, Option<String>) = match &obs.act {
        Act::Send(i, l) | Act::SendHeldFirst(i, l) => (*i, Some(l.clone())),
        Act::Eof(i) | Act::EofPartial(i, _) | Act::Connect(i) => (*i, None),
        Act::Raw(i, b) => {
            // bytes that are not valid text or an over-long line end that connection
            let bad = std::str::from_utf8(b).is_err() || b.split(|c| *c == b'\n').any(|l| l.len() > crate::world::MAX_LINE);
            if !bad {
                // several complete commands in one segment: judged as their composition below
                match std::str::from_utf8(b) {
                    Ok(t) if t.ends_with('\n') && t.matches('\n').count() >= 2 => (*i, Some(String::new())),
                    _ => return (out, false),
                }
            } else {
                (*i, None)
            }
        }
        _ => return (out, false),
    };
    let info = match obs.pre_infos[actor_slot].as_ref() {
        Some(i) => i.clone(),
        None => {
            if let Act::Connect(_) = obs.act {
                ConnInfo::default()
            } else {
                return (out, false);
            }
        }
    };
    let actor_nick = info.nick.clone();
    let raw_chain: Option<Vec<(usize, String)>> = match &obs.act {
        Act::Raw(i, b) if line.is_some() => std::str::from_utf8(b).ok().map(|t| t.split('\n').map(|l| l.trim_end_matches('\r')).filter(|l| !l.trim().is_empty()).map(|l| (*i, l.to_string())).collect()),
        _ => None,
    };
    let exp = match (&obs.act, &line) {
        (Act::SendHeldFirst(_, _), _) | (Act::Raw(_, _), Some(_)) => {
            // the other connections' lines in flight are read before the actor's
            // command takes effect on them (a KILL only posts a notice): expected
            // result = those lines one after another, then the actor's line.
            // Several commands in one segment are the same kind of composition: each
            // takes effect on the state the previous one left (a KILL only posts a notice).
            let mut m = pre_m.clone();
            let mut acc: Option<Exp> = None;
            let mut pending_erase: Vec<String> = vec![];
            let mut chain: Vec<(usize, String)> = vec![];
            if let Some(rc) = &raw_chain {
                // the actor's identity, privileges and registration state are read from the
                // state before the segment: segments that change them are not judged
                if rc.iter().any(|(_, l)| {
                    let v = l.trim_start().split(' ').next().unwrap_or("").to_ascii_uppercase();
                    matches!(v.as_str(), "NICK" | "OPER" | "QUIT" | "USER" | "PASS" | "CAP" | "MODE" | "AUTHENTICATE")
                }) {
                    return (out, false);
                }
                chain = rc.clone();
            } else if let Act::SendHeldFirst(_, l) = &obs.act {
                for (j, ls) in obs.pre_held.iter().enumerate() {
                    if j != actor_slot {
                        for hl in ls {
                            chain.push((j, hl.clone()));
                        }
                    }
                }
                chain.push((actor_slot, l.clone()));
            }
            for (j, hl) in chain {
                let inf = match obs.pre_infos[j].as_ref() {
                    Some(i) => i.clone(),
                    None => return (out, false),
                };
                let a = Actor { nick: inf.nick.as_deref(), info: &inf };
                let e = match spec::step(&m, cfg, &a, &hl) {
                    Some(e) => e,
                    None => return (out, false),
                };
                // a KILL only posts a notice: until the victim's own connection has handled it
                // the victim is still there (marked), and later commands of the same segment see it
                let is_kill = hl.trim_start().split(' ').next().map_or(false, |v| v.eq_ignore_ascii_case("KILL"));
                if is_kill && !e.closed.is_empty() && raw_chain.is_some() {
                    let mut mid = m.clone();
                    for v in &e.closed {
                        if let Some(u) = mid.users.get_mut(v) {
                            u.killed = true;
                        }
                        pending_erase.push(v.clone());
                    }
                    m = mid;
                } else {
                    m = e.next.clone();
                }
                acc = Some(match acc {
                    None => {
                        let mut e0 = e;
                        if j != actor_slot {
                            // lines to that connection are "to" lines from the actor's view
                            if let Some(n) = inf.nick.clone() {
                                let own = std::mem::take(&mut e0.actor);
                                e0.to.entry(n).or_default().extend(own);
                            }
                        }
                        e0
                    }
                    Some(mut prev) => {
                        let mut e1 = e;
                        if j != actor_slot {
                            if let Some(n) = inf.nick.clone() {
                                let own = std::mem::take(&mut e1.actor);
                                e1.to.entry(n).or_default().extend(own);
                            }
                        }
                        prev.next = e1.next;
                        for (k, v) in e1.to {
                            // a user killed earlier in the same segment may or may not still be
                            // reached by what follows (it is on its way out)
                            let fading = pending_erase.contains(&k);
                            prev.to.entry(k).or_default().extend(v.into_iter().map(|mut l| {
                                if fading && l.req == spec::Req::Must {
                                    l.req = spec::Req::May;
                                }
                                l
                            }));
                        }
                        prev.actor.extend(e1.actor);
                        prev.closed.extend(e1.closed);
                        prev.actor_closed = prev.actor_closed || e1.actor_closed;
                        prev.actor_unchecked = prev.actor_unchecked || e1.actor_unchecked;
                        prev
                    }
                });
            }
            match acc {
                Some(mut e) => {
                    if raw_chain.is_some() {
                        // the state after everything settled: the composition's last state with the
                        // killed users gone
                        e.next = m.clone();
                        for v in &pending_erase {
                            e.next.erase_user(v);
                        }
                    }
                    e
                }
                None => return (out, false),
            }
        }
        (_, Some(l)) => {
            let actor = Actor {
                nick: actor_nick.as_deref(),
                info: &info,
            };
            match spec::step(&pre_m, cfg, &actor, l) {
                Some(e) => e,
                None => return (out, false),
            }
        }
        (Act::Connect(_), _) => Exp {
            next: pre_m.clone(),
            actor_close_optional: true,
            ..Default::default()
        },
        _ => {
            // the client side closes: the user (if any) disappears, nothing else changes
            let mut e = Exp {
                next: pre_m.clone(),
                actor_closed: true,
                ..Default::default()
            };
            let registered = info.authenticated && !info.has_sender && actor_nick.as_ref().map_or(false, |n| pre_m.users.contains_key(n));
            if registered {
                e.next.erase_user(actor_nick.as_ref().unwrap());
            }
            e.actor_unchecked = true;
            e
        }
    };
    let verb = match &line {
        Some(l) => l.trim_start().split(' ').next().unwrap_or("").to_ascii_uppercase(),
        None => match obs.act {
            Act::Connect(_) => "<connect>".to_string(),
            _ => "<eof>".to_string(),
        },
    };
    let obs_actor = actor_slot;
    // --- state
    let post_m = M::from_snapshot(&obs.post);
    for (cat, msg) in diff_m(&exp.next, &post_m) {
        if focus.cats.contains(&cat) {
            out.push(Finding {
                sig: format!("{}:state:{:?}", verb, cat),
                detail: msg,
            });
        }
    }
    // --- lines to others
    let server = cfg.server.as_str();
    let relay_ok = |m: &Msg| -> bool {
        if is_server_ping(server, m) {
            return false;
        }
        match &focus.relay_verbs {
            None => true,
            Some(v) => v.iter().any(|x| x.eq_ignore_ascii_case(&m.cmd)),
        }
    };
    // A server may announce the end of a session to the users who shared a channel with
    // it (":nick!user@host QUIT :reason"; this one does not, §4.0): such a line, from a
    // user the step removes to a receiver that shared a channel with it, is tolerated.
    let gone: BTreeSet<String> = pre_m.users.keys().filter(|n| !exp.next.users.contains_key(*n)).cloned().collect();
    let tolerated_quit = |receiver: Option<&str>, m: &Msg| -> bool {
        if !m.cmd.eq_ignore_ascii_case("QUIT") {
            return false;
        }
        let from = match m.prefix.as_deref() {
            Some(p) => p.split('!').next().unwrap_or("").to_string(),
            None => return false,
        };
        let r = match receiver {
            Some(r) => r,
            None => return false,
        };
        gone.contains(&from) && from != r && pre_m.chans.values().any(|c| c.members.contains_key(&from) && c.members.contains_key(r))
    };
    if focus.relays {
        // map receivers
        let mut exp_by_slot: BTreeMap<usize, Vec<ExpLine>> = BTreeMap::new();
        for (nick, lines) in &exp.to {
            match slot_of_nick(&obs.pre_infos, &obs.pre_life, nick) {
                Some(s) => exp_by_slot.entry(s).or_default().extend(lines.iter().cloned()),
                None => {
                    // expected receiver has no live connection: C02's bijection business
                }
            }
        }
        let mut ann_slots: BTreeSet<usize> = BTreeSet::new();
        if let Some(ann) = &exp.mode_announce {
            for n in &ann.members {
                if let Some(s) = slot_of_nick(&obs.pre_infos, &obs.pre_life, n) {
                    ann_slots.insert(s);
                }
            }
        }
        for s in 0..obs.lines.len() {
            if s == obs_actor {
                continue;
            }
            let rnick: Option<String> = obs.pre_infos[s].as_ref().and_then(|i| i.nick.clone());
            let got: Vec<Msg> = parse_lines(&obs.lines[s]).into_iter().filter(|m| relay_ok(m) && !tolerated_quit(rnick.as_deref(), m)).collect();
            let mut got_rest = vec![];
            let mut mode_lines = vec![];
            for m in got {
                if exp.mode_announce.is_some() && m.cmd.eq_ignore_ascii_case("MODE") {
                    mode_lines.push(m);
                } else {
                    got_rest.push(m);
                }
            }
            let e: Vec<ExpLine> = exp_by_slot
                .get(&s)
                .cloned()
                .unwrap_or_default()
                .into_iter()
                .filter(|l| match &focus.relay_verbs {
                    None => true,
                    Some(v) => v.iter().any(|x| x.eq_ignore_ascii_case(&l.cmd)),
                })
                .collect();
            if let Err(msg) = match_lines(server, &e, &got_rest) {
                out.push(Finding {
                    sig: format!("{}:relay", verb),
                    detail: format!("slot {}: {}", s, msg),
                });
            }
            let mode_in_focus = focus.relay_verbs.as_ref().map_or(true, |v| v.iter().any(|x| x.eq_ignore_ascii_case("MODE")));
            if let (Some(ann), true) = (&exp.mode_announce, mode_in_focus) {
                if let Err(msg) = check_mode_announce(ann, &mode_lines, ann_slots.contains(&s)) {
                    out.push(Finding {
                        sig: format!("{}:announce", verb),
                        detail: format!("slot {}: {}", s, msg),
                    });
                }
            }
        }
    }
    // --- actor's own lines
    if focus.actor && !exp.actor_unchecked {
        let got_all: Vec<Msg> = parse_lines(&obs.lines[obs_actor]).into_iter().filter(|m| !is_server_ping(server, m) && !tolerated_quit(actor_nick.as_deref(), m)).collect();
        let mut got = vec![];
        let mut mode_lines = vec![];
        let mut saw_welcome = false;
        for m in got_all {
            let from_server = m.prefix.as_deref() == Some(server);
            if from_server && m.cmd == "001" {
                saw_welcome = true;
            }
            if exp.welcome && from_server && is_numeric(&m.cmd) {
                continue; // the burst contents are C20's business
            }
            if exp.mode_announce.is_some() && !from_server && m.cmd.eq_ignore_ascii_case("MODE") {
                mode_lines.push(m);
                continue;
            }
            if exp.user_mode_announce.is_some() && !from_server && m.cmd.eq_ignore_ascii_case("MODE") {
                mode_lines.push(m);
                continue;
            }
            if let Some(codes) = &focus.actor_codes {
                if !codes.iter().any(|c| c.eq_ignore_ascii_case(&m.cmd)) {
                    continue;
                }
            }
            got.push(m);
        }
        let e: Vec<ExpLine> = exp
            .actor
            .iter()
            .cloned()
            .filter(|l| match &focus.actor_codes {
                None => true,
                Some(codes) => codes.iter().any(|c| c.eq_ignore_ascii_case(&l.cmd)),
            })
            .collect();
        if let Err(msg) = match_lines(server, &e, &got) {
            out.push(Finding {
                sig: format!("{}:reply", verb),
                detail: format!("actor slot {}: {}", obs_actor, msg),
            });
        }
        if exp.welcome && !saw_welcome {
            out.push(Finding {
                sig: format!("{}:no-welcome", verb),
                detail: "registration should have completed (001 missing)".into(),
            });
        }
        if exp.no_welcome && saw_welcome {
            out.push(Finding {
                sig: format!("{}:welcome", verb),
                detail: "registration completed although the conditions are not met (001 sent)".into(),
            });
        }
        if let Some(ann) = &exp.mode_announce {
            let is_member = actor_nick.as_ref().map_or(false, |n| ann.members.contains(n));
            if let Err(msg) = check_mode_announce(ann, &mode_lines, is_member) {
                out.push(Finding {
                    sig: format!("{}:announce", verb),
                    detail: format!("actor slot {}: {}", obs_actor, msg),
                });
            }
            // what is announced is in effect afterwards ("each accepted change is applied,
            // announced"): independent of the Spec's own idea of the next state
            if is_member {
                let post_m = M::from_snapshot(&obs.post);
                if let Some(ch) = post_m.chans.get(&ann.chan) {
                    for l in &mode_lines {
                        if let Some(atoms) = spec::parse_mode_atoms(&l.params[1.min(l.params.len())..]) {
                            for (plus, letter, arg) in atoms {
                                let ok = match letter {
                                    'q' | 'a' | 'o' | 'h' | 'v' => match arg.as_ref().and_then(|n| ch.members.get(n)) {
                                        Some(mm) => mm.has(letter) == plus,
                                        None => !plus, // the member left in the same step
                                    },
                                    'b' => arg.as_ref().map_or(true, |a| ch.ban.contains(a) == plus),
                                    'e' => arg.as_ref().map_or(true, |a| ch.except.contains(a) == plus),
                                    'I' => arg.as_ref().map_or(true, |a| ch.invex.contains(a) == plus),
                                    'k' => {
                                        if plus {
                                            ch.key == arg
                                        } else {
                                            ch.key.is_none()
                                        }
                                    }
                                    'l' => {
                                        if plus {
                                            ch.limit == arg.as_ref().and_then(|a| a.parse().ok())
                                        } else {
                                            ch.limit.is_none()
                                        }
                                    }
                                    f @ ('i' | 'm' | 's' | 't' | 'n') => ch.flag(f) == plus,
                                    _ => true,
                                };
                                if !ok {
                                    // a later atom of the same line may legitimately undo an earlier one
                                    let undone = mode_lines.iter().any(|l2| spec::parse_mode_atoms(&l2.params[1.min(l2.params.len())..]).map_or(false, |a2| a2.iter().filter(|x| x.1 == letter && (x.2 == arg || matches!(letter, 'k' | 'l' | 'i' | 'm' | 's' | 't' | 'n'))).count() > 1));
                                    if !undone {
                                        out.push(Finding {
                                            sig: format!("{}:announced-not-applied", verb),
                                            detail: format!("MODE {} announced {}{} {:?} but afterwards the channel does not show it (key {:?}, limit {:?}, flags i={} m={} s={} t={} n={})", ann.chan, if plus { '+' } else { '-' }, letter, arg, ch.key, ch.limit, ch.fi, ch.fm, ch.fs, ch.ft, ch.fnn),
                                        });
                                    }
                                }
                            }
                        }
                    }
                }
            }
        }
        if let Some((src, nick, set, unset)) = &exp.user_mode_announce {
            if let Err(msg) = check_user_mode_echo(src, nick, set, unset, &mode_lines) {
                out.push(Finding {
                    sig: format!("{}:umode-echo", verb),
                    detail: msg,
                });
            }
        } else if exp.mode_announce.is_none() && !mode_lines.is_empty() {
            out.push(Finding {
                sig: format!("{}:umode-echo", verb),
                detail: format!("unexpected MODE echo {:?}", mode_lines.iter().map(render).collect::<Vec<_>>()),
            });
        }
    }
    // --- capability negotiation flag (registration is suspended while it is open)
    if focus.actor {
        if let Some(want) = exp.cap_open_after {
            if let Some(Some(pi)) = obs.post_infos.get(obs_actor) {
                if obs.post_life[obs_actor] == Life::Live && pi.caps_negotation != want {
                    out.push(Finding {
                        sig: format!("{}:cap-negotiation", verb),
                        detail: format!("after {:?} the capability negotiation should be {} but is {}", obs.act.render(), if want { "open" } else { "closed" }, if pi.caps_negotation { "open" } else { "closed" }),
                    });
                }
            }
        }
        if let Some((n, u, pw)) = &exp.reg_after {
            if let Some(Some(pi)) = obs.post_infos.get(obs_actor) {
                if obs.post_life[obs_actor] == Life::Live && (&pi.nick, &pi.name, &pi.password) != (n, u, pw) {
                    out.push(Finding {
                        sig: format!("{}:registration-data", verb),
                        detail: format!("after {:?} the connection should remember (nick, user, password) = {:?} but holds {:?}", obs.act.render(), (n, u, pw), (&pi.nick, &pi.name, &pi.password)),
                    });
                }
            }
        }
        // a 001 must never appear where the Spec forbids completion, also when the
        // actor's other reply lines are not compared
        if exp.no_welcome && exp.actor_unchecked {
            let server = cfg.server.as_str();
            if parse_lines(&obs.lines[obs_actor]).iter().any(|m| m.prefix.as_deref() == Some(server) && m.cmd == "001") {
                out.push(Finding {
                    sig: format!("{}:welcome", verb),
                    detail: "registration completed although the conditions are not met (001 sent)".into(),
                });
            }
        }
    }
    // --- endings
    if focus.closes {
        for s in 0..obs.post_life.len() {
            let was_live = obs.pre_life[s] == Life::Live;
            let is_live = obs.post_life[s] == Life::Live;
            if !was_live {
                continue;
            }
            let must_close = if s == obs_actor {
                exp.actor_closed
            } else {
                exp.closed.iter().any(|n| slot_of_nick(&obs.pre_infos, &obs.pre_life, n) == Some(s))
            };
            let optional = s == obs_actor && exp.actor_close_optional;
            if must_close && is_live && !optional {
                out.push(Finding {
                    sig: format!("{}:not-closed", verb),
                    detail: format!("slot {} should have been disconnected", s),
                });
            }
            if !must_close && !is_live && !optional {
                out.push(Finding {
                    sig: format!("{}:closed", verb),
                    detail: format!("slot {} was disconnected ({:?}) but nothing ends that session", s, obs.post_life[s]),
                });
            }
        }
    }
    (out, true)
}

fn check_mode_announce(ann: &spec::ModeAnnounce, lines: &[Msg], is_member: bool) -> Result<(), String> {
    if !is_member {
        if !lines.is_empty() {
            return Err(format!("non-member received MODE announcement {:?}", lines.iter().map(render).collect::<Vec<_>>()));
        }
        return Ok(());
    }
    let mut atoms = vec![];
    for l in lines {
        if l.prefix.as_deref() != Some(ann.src.as_str()) {
            return Err(format!("MODE announcement with wrong source: {}", render(l)));
        }
        if l.params.first().map(|s| s.as_str()) != Some(ann.chan.as_str()) {
            return Err(format!("MODE announcement for wrong target: {}", render(l)));
        }
        match spec::parse_mode_atoms(&l.params[1..]) {
            Some(a) => atoms.extend(a),
            None => return Err(format!("unparsable MODE announcement: {}", render(l))),
        }
    }
    if lines.len() > 1 {
        return Err(format!("{} MODE announcements for one command", lines.len()));
    }
    // effective subset-of announced subset-of permitted (multisets)
    let mut perm = ann.permitted.clone();
    for a in &atoms {
        match perm.iter().position(|p| p == a || (p.0 == a.0 && p.1 == a.1 && !a.0 && (a.1 == 'k' || a.1 == 'l'))) {
            Some(k) => {
                perm.remove(k);
            }
            None => return Err(format!("announced change {:?} was not a permitted requested change (permitted {:?})", a, ann.permitted)),
        }
    }
    let mut got = atoms.clone();
    for e in &ann.effective {
        match got.iter().position(|p| p == e || (p.0 == e.0 && p.1 == e.1 && !e.0 && (e.1 == 'k' || e.1 == 'l'))) {
            Some(k) => {
                got.remove(k);
            }
            None => return Err(format!("applied change {:?} was not announced (announced {:?})", e, atoms)),
        }
    }
    Ok(())
}

fn check_user_mode_echo(src: &str, nick: &str, set: &str, unset: &str, lines: &[Msg]) -> Result<(), String> {
    let mut gs = BTreeSet::new();
    let mut gu = BTreeSet::new();
    for l in lines {
        if l.prefix.as_deref() != Some(src) || l.params.first().map(|s| s.as_str()) != Some(nick) {
            return Err(format!("user MODE echo with wrong source/target: {}", render(l)));
        }
        for ms in &l.params[1..] {
            let mut plus = true;
            for c in ms.chars() {
                match c {
                    '+' => plus = true,
                    '-' => plus = false,
                    c => {
                        if plus {
                            gs.insert(c);
                        } else {
                            gu.insert(c);
                        }
                    }
                }
            }
        }
    }
    let es: BTreeSet<char> = set.chars().collect();
    let eu: BTreeSet<char> = unset.chars().collect();
    if gs != es || gu != eu {
        return Err(format!("user MODE echo: expected +{:?} -{:?}, got +{:?} -{:?}", es, eu, gs, gu));
    }
    Ok(())
}
