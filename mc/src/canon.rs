//! Reference tokenizer (written from the RFC 1459 / "modern IRC" grammar, not
//! from the server's parser), canonical forms and hashing.

use crate::state::verif::{ConnInfo, Snapshot};
use std::hash::{Hash, Hasher};

#[derive(Clone, Debug, PartialEq, Eq, Hash, PartialOrd, Ord)]
pub struct Msg {
    pub prefix: Option<String>,
    pub cmd: String,
    pub params: Vec<String>,
    /// true if the last parameter was introduced by " :"
    pub trailing: bool,
}

#[derive(Clone, Debug, PartialEq, Eq)]
pub enum TokErr {
    Empty,
    NoCommand,
}

/// message = [":" prefix SPACE] command *(SPACE middle) [SPACE ":" trailing]
/// SPACE = one or more ' '. Leading blanks are skipped. A middle parameter may
/// contain ':' but not begin with it.
pub fn tokenize(line: &str) -> Result<Msg, TokErr> {
    let b = line.as_bytes();
    let mut i = 0;
    let n = b.len();
    let is_sp = |c: u8| c == b' ' || c == b'\t';
    while i < n && is_sp(b[i]) {
        i += 1;
    }
    if i >= n {
        return Err(TokErr::Empty);
    }
    let mut prefix = None;
    if b[i] == b':' {
        let st = i + 1;
        while i < n && !is_sp(b[i]) {
            i += 1;
        }
        prefix = Some(line[st..i].to_string());
        while i < n && is_sp(b[i]) {
            i += 1;
        }
    }
    if i >= n {
        return Err(TokErr::NoCommand);
    }
    let st = i;
    while i < n && !is_sp(b[i]) {
        i += 1;
    }
    let cmd = line[st..i].to_string();
    let mut params = vec![];
    let mut trailing = false;
    loop {
        while i < n && is_sp(b[i]) {
            i += 1;
        }
        if i >= n {
            break;
        }
        if b[i] == b':' {
            params.push(line[i + 1..].to_string());
            trailing = true;
            break;
        }
        let st = i;
        while i < n && !is_sp(b[i]) {
            i += 1;
        }
        params.push(line[st..i].to_string());
    }
    Ok(Msg {
        prefix,
        cmd,
        params,
        trailing,
    })
}

/// Parse a line emitted by the server. Panics never; malformed => None.
pub fn parse_server_line(line: &str) -> Option<Msg> {
    tokenize(line).ok()
}

pub fn is_numeric(cmd: &str) -> bool {
    cmd.len() == 3 && cmd.bytes().all(|c| c.is_ascii_digit())
}

/// 128-bit deterministic hash (SipHash with fixed keys, two domains).
pub fn hash128<T: Hash>(t: &T) -> u128 {
    let mut h1 = std::collections::hash_map::DefaultHasher::new();
    0u8.hash(&mut h1);
    t.hash(&mut h1);
    let mut h2 = std::collections::hash_map::DefaultHasher::new();
    1u8.hash(&mut h2);
    t.hash(&mut h2);
    ((h1.finish() as u128) << 64) | (h2.finish() as u128)
}

/// Remove wall-clock fields (they reach only masked observation fields).
pub fn mask_times(s: &mut Snapshot) {
    for u in s.users.iter_mut() {
        u.last_activity = 0;
        u.signon = 0;
        u.history_entry.signon = 0;
    }
    for c in s.channels.iter_mut() {
        c.creation_time = 0;
        if let Some(t) = c.topic.as_mut() {
            t.2 = 0;
        }
        for b in c.ban_info.iter_mut() {
            b.2 = 0;
        }
    }
    for (_, h) in s.nick_histories.iter_mut() {
        for e in h.iter_mut() {
            e.signon = 0;
        }
    }
}

pub fn masked(s: &Snapshot) -> Snapshot {
    let mut m = s.clone();
    mask_times(&mut m);
    m
}

/// Canonical form of one reply line for differential comparison: the
/// `<client>` label of numerics and wall-clock fields are masked, unordered
/// lists inside a parameter are sorted.
pub fn canon_line(server: &str, line: &str) -> String {
    let m = match tokenize(line) {
        Ok(m) => m,
        Err(_) => return format!("?{}", line),
    };
    let mut p = m.params.clone();
    let from_server = m.prefix.as_deref() == Some(server);
    if from_server && is_numeric(&m.cmd) {
        if !p.is_empty() {
            p[0] = "*".into();
        }
        let sort_last = |p: &mut Vec<String>| {
            if let Some(l) = p.last_mut() {
                let mut w: Vec<&str> = l.split(' ').filter(|x| !x.is_empty()).collect();
                w.sort();
                *l = w.join(" ");
            }
        };
        match m.cmd.as_str() {
            "353" | "319" | "302" | "303" => sort_last(&mut p),
            "003" | "391" | "242" => {
                for x in p.iter_mut().skip(1) {
                    *x = "<t>".into();
                }
            }
            "317" => {
                if p.len() > 3 {
                    p[2] = "<t>".into();
                    p[3] = "<t>".into();
                }
            }
            "329" => {
                if p.len() > 2 {
                    p[2] = "<t>".into();
                }
            }
            "333" => {
                if p.len() > 3 {
                    p[3] = "<t>".into();
                }
            }
            "367" => {
                if p.len() > 4 {
                    p[4] = "<t>".into();
                }
            }
            "312" => {
                if let Some(l) = p.last_mut() {
                    if l.starts_with("Logged in at") {
                        *l = "Logged in at <t>".into();
                    }
                }
            }
            "324" => {
                // modestring: flags then params then " +b m" items in hash order
                if p.len() > 2 {
                    let rest: Vec<String> = p[2..].to_vec();
                    let joined = rest.join(" ");
                    let mut w: Vec<&str> = joined.split(' ').collect();
                    // keep the first token (flags) first, sort (sign,arg) pairs after fixed params
                    if !w.is_empty() {
                        let first = w.remove(0);
                        // group as pairs where a token starts with '+'/'-'
                        let mut fixed: Vec<&str> = vec![];
                        let mut pairs: Vec<String> = vec![];
                        let mut k = 0;
                        while k < w.len() {
                            if (w[k].starts_with('+') || w[k].starts_with('-')) && k + 1 < w.len() {
                                pairs.push(format!("{} {}", w[k], w[k + 1]));
                                k += 2;
                            } else {
                                fixed.push(w[k]);
                                k += 1;
                            }
                        }
                        pairs.sort();
                        let mut out = vec![first.to_string()];
                        out.extend(fixed.iter().map(|x| x.to_string()));
                        out.extend(pairs);
                        p.truncate(2);
                        p.push(out.join(" "));
                    }
                }
            }
            _ => {}
        }
    }
    format!(
        "{}|{}|{}",
        m.prefix.unwrap_or_default(),
        m.cmd,
        p.join("\u{1}")
    )
}

/// Canonical multiset of lines (sorted).
pub fn canon_lines(server: &str, lines: &[String]) -> Vec<String> {
    let mut v: Vec<String> = lines.iter().map(|l| canon_line(server, l)).collect();
    v.sort();
    v
}

/// The part of ConnInfo that influences future behaviour (for state keys).
pub fn info_key(i: &ConnInfo) -> ConnInfo {
    i.clone()
}
