//! Data-driven scenario ("chat world") used by most E-SEQ checks.

use crate::bfs::{Act, Scenario, View};
use crate::check::{Finding, Focus, StepObs};
use crate::config::{ChannelConfig, ChannelModes, MainConfig, OperatorConfig, UserConfig, UserModes};
use crate::spec::{SpecCfg, SpecOper, SpecUser};
use crate::world::{MachineryError, World};
use std::collections::{BTreeSet, HashMap};
use std::sync::Mutex;

lazy_static::lazy_static! {
    static ref HASHES: Mutex<HashMap<String, String>> = Mutex::new(HashMap::new());
}

/// Real hash of a plaintext password (memoised; ~2 ms each).
pub fn hash_of(plain: &str) -> String {
    if let Some(h) = HASHES.lock().unwrap().get(plain) {
        return h.clone();
    }
    let h = crate::utils::argon2_hash_password(plain);
    HASHES.lock().unwrap().insert(plain.to_string(), h.clone());
    h
}

/// A configuration described once, from which both the real `MainConfig` and
/// the Spec's view of it are derived.
#[derive(Clone, Debug, Default)]
pub struct Cfg {
    pub label: String,
    pub password: Option<String>,
    pub max_joins: Option<usize>,
    pub max_connections: Option<usize>,
    pub ping_timeout: Option<u64>,
    pub pong_timeout: Option<u64>,
    pub opers: Vec<SpecOper>,
    pub users: Vec<(String, String, Option<String>, Option<String>)>, // name, nick, password, mask
    pub def_modes: (bool, bool, bool, bool, bool),                     // i o O r w
    pub channels: Vec<CfgChan>,
    pub motd: Option<String>,
    pub name: Option<String>,
    pub network: Option<String>,
}

#[derive(Clone, Debug, Default)]
pub struct CfgChan {
    pub name: String,
    pub topic: Option<String>,
    pub key: Option<String>,
    pub limit: Option<usize>,
    pub ban: Vec<String>,
    pub exception: Vec<String>,
    pub invite_exception: Vec<String>,
    pub founders: Vec<String>,
    pub protecteds: Vec<String>,
    pub operators: Vec<String>,
    pub half_operators: Vec<String>,
    pub voices: Vec<String>,
    pub flags: String, // subset of "imstn"
    /// the mask lists are written in the configuration even when empty (`exception = []`)
    pub empty_lists_present: bool,
}

fn set_opt(v: &[String]) -> Option<std::collections::HashSet<String>> {
    if v.is_empty() {
        None
    } else {
        Some(v.iter().cloned().collect())
    }
}

impl Cfg {
    pub fn main_config(&self) -> MainConfig {
        let mut c = MainConfig::default();
        // keep the timers out of the way unless a scenario wants them
        c.ping_timeout = self.ping_timeout.unwrap_or(1_000_000);
        c.pong_timeout = self.pong_timeout.unwrap_or(500_000);
        c.password = self.password.as_ref().map(|p| hash_of(p));
        c.max_joins = self.max_joins;
        c.max_connections = self.max_connections;
        if let Some(m) = &self.motd {
            c.motd = m.clone();
        }
        if let Some(n) = &self.name {
            c.name = n.clone();
        }
        if let Some(n) = &self.network {
            c.network = n.clone();
        }
        if !self.opers.is_empty() {
            c.operators = Some(
                self.opers
                    .iter()
                    .map(|o| OperatorConfig {
                        name: o.name.clone(),
                        password: hash_of(&o.password),
                        mask: o.mask.clone(),
                    })
                    .collect(),
            );
        }
        if !self.users.is_empty() {
            c.users = Some(
                self.users
                    .iter()
                    .map(|(name, nick, pw, mask)| UserConfig {
                        name: name.clone(),
                        nick: nick.clone(),
                        password: pw.as_ref().map(|p| hash_of(p)),
                        mask: mask.clone(),
                    })
                    .collect(),
            );
        }
        c.default_user_modes = UserModes {
            invisible: self.def_modes.0,
            oper: self.def_modes.1,
            local_oper: self.def_modes.2,
            registered: self.def_modes.3,
            wallops: self.def_modes.4,
        };
        if !self.channels.is_empty() {
            c.channels = Some(
                self.channels
                    .iter()
                    .map(|ch| ChannelConfig {
                        name: ch.name.clone(),
                        topic: ch.topic.clone(),
                        modes: ChannelModes {
                            ban: if ch.empty_lists_present { Some(ch.ban.iter().cloned().collect()) } else { set_opt(&ch.ban) },
                            exception: if ch.empty_lists_present { Some(ch.exception.iter().cloned().collect()) } else { set_opt(&ch.exception) },
                            client_limit: ch.limit,
                            invite_exception: if ch.empty_lists_present { Some(ch.invite_exception.iter().cloned().collect()) } else { set_opt(&ch.invite_exception) },
                            key: ch.key.clone(),
                            operators: set_opt(&ch.operators),
                            half_operators: set_opt(&ch.half_operators),
                            voices: set_opt(&ch.voices),
                            founders: set_opt(&ch.founders),
                            protecteds: set_opt(&ch.protecteds),
                            invite_only: ch.flags.contains('i'),
                            moderated: ch.flags.contains('m'),
                            secret: ch.flags.contains('s'),
                            protected_topic: ch.flags.contains('t'),
                            no_external_messages: ch.flags.contains('n'),
                        },
                    })
                    .collect(),
            );
        }
        c
    }

    pub fn spec_cfg(&self) -> SpecCfg {
        SpecCfg {
            server: self.name.clone().unwrap_or_else(|| "irc.irc".into()),
            max_joins: self.max_joins,
            password: self.password.clone(),
            opers: self.opers.clone(),
            users: self
                .users
                .iter()
                .map(|(name, _nick, pw, mask)| SpecUser {
                    name: name.clone(),
                    password: pw.clone(),
                    mask: mask.clone(),
                })
                .collect(),
            def_i: self.def_modes.0,
            def_o: self.def_modes.1,
            def_lo: self.def_modes.2,
            def_r: self.def_modes.3,
            def_w: self.def_modes.4,
        }
    }
}

/// One registered participant: slot, the two nicknames it alternates between,
/// user name.
#[derive(Clone, Debug)]
pub struct Part {
    pub slot: usize,
    pub nick: &'static str,
    pub alt: &'static str,
    pub user: &'static str,
    /// not registered by the prelude: the connection is only opened and its
    /// NICK / USER lines are part of the searched alphabet (so that several
    /// connections can contend for one nickname during the search)
    pub late: bool,
}

pub type StepOracle = Box<dyn Fn(&ChatScn, &View, &StepObs, &View, &mut BTreeSet<String>) -> Vec<Finding> + Send + Sync>;
pub type StateOracle = Box<dyn Fn(&ChatScn, &mut World, &View, &mut BTreeSet<String>) -> Vec<Finding> + Send + Sync>;
pub type AfterStep = Box<dyn Fn(&ChatScn, &mut World, &View, &StepObs, &View, &mut BTreeSet<String>) -> Vec<Finding> + Send + Sync>;
pub type ActFn = Box<dyn Fn(&ChatScn, &View) -> Vec<Act> + Send + Sync>;

pub struct ChatScn {
    pub name: String,
    pub cfg: Cfg,
    pub slots: usize,
    pub parts: Vec<Part>,
    /// lines sent during the prelude (slot, line)
    pub prelude: Vec<(usize, String)>,
    /// templates for every registered participant: {me} {peer} {alt}
    pub alphabet: Vec<&'static str>,
    /// templates restricted to one participant slot
    pub alphabet_for: Vec<(usize, &'static str)>,
    /// per-participant end-of-session actions offered: "eof", "eof_partial"
    pub ends: Vec<&'static str>,
    /// probe templates for every registered participant
    pub probes: Vec<&'static str>,
    pub probes_for: Vec<(usize, &'static str)>,
    pub extra_actions: Option<ActFn>,
    pub extra_probes: Option<ActFn>,
    pub focus: Focus,
    pub probe_focus: Option<Focus>,
    pub invariants: Vec<&'static str>,
    pub step_oracle: Option<StepOracle>,
    pub state_oracle: Option<StateOracle>,
    pub after_step: Option<AfterStep>,
    pub goals: Vec<&'static str>,
    pub spec_skip: Option<Box<dyn Fn(&Act) -> bool + Send + Sync>>,
    pub key_now: bool,
    /// after every step: a participant whose connection has ended must not have left a
    /// user behind (under its nick or alternative nick) unless another live connection
    /// registered that nick since - decided from what the harness knows (who connected
    /// as whom, which connections are gone) and the server's user table
    pub orphan_check: bool,
    /// slots whose set of lines sent so far is part of the state key: histories that leave the
    /// same published state but differ in what these connections have already tried are
    /// explored separately (a connection may remember an earlier attempt invisibly)
    pub key_tried: Vec<usize>,
}

impl ChatScn {
    pub fn new(name: &str, cfg: Cfg, parts: Vec<Part>, extra_slots: usize) -> ChatScn {
        let slots = parts.iter().map(|p| p.slot + 1).max().unwrap_or(0) + extra_slots;
        ChatScn {
            name: name.to_string(),
            cfg,
            slots,
            parts,
            prelude: vec![],
            alphabet: vec![],
            alphabet_for: vec![],
            ends: vec![],
            probes: vec![],
            probes_for: vec![],
            extra_actions: None,
            extra_probes: None,
            focus: Focus::all(),
            probe_focus: None,
            invariants: vec![],
            step_oracle: None,
            state_oracle: None,
            after_step: None,
            goals: vec![],
            spec_skip: None,
            key_now: false,
            orphan_check: false,
            key_tried: vec![],
        }
    }

    pub fn part_of_slot(&self, slot: usize) -> Option<&Part> {
        self.parts.iter().find(|p| p.slot == slot)
    }

    /// Expand one template for participant `p` in view `v`.
    pub fn expand(&self, v: &View, p: &Part, t: &str) -> Vec<String> {
        let me = match v.nick(p.slot) {
            Some(n) => n.to_string(),
            None => return vec![],
        };
        if !v.m.users.contains_key(&me) {
            return vec![];
        }
        let alt = if me == p.nick { p.alt } else { p.nick };
        let base = t.replace("{me}", &me).replace("{alt}", alt);
        if base.contains("{peer}") {
            let mut out = vec![];
            for q in &self.parts {
                if q.slot == p.slot {
                    continue;
                }
                if let Some(pn) = v.nick(q.slot) {
                    out.push(base.replace("{peer}", pn));
                }
            }
            out
        } else {
            vec![base]
        }
    }

    fn expand_all(&self, v: &View, general: &[&'static str], specific: &[(usize, &'static str)]) -> Vec<Act> {
        let mut acts = vec![];
        for p in &self.parts {
            for t in general {
                for l in self.expand(v, p, t) {
                    acts.push(Act::Send(p.slot, l));
                }
            }
            for (s, t) in specific {
                if *s == p.slot {
                    for l in self.expand(v, p, t) {
                        acts.push(Act::Send(p.slot, l));
                    }
                }
            }
        }
        acts
    }
}

impl Scenario for ChatScn {
    fn name(&self) -> String {
        self.name.clone()
    }
    fn slots(&self) -> usize {
        self.slots
    }
    fn config(&self) -> MainConfig {
        self.cfg.main_config()
    }
    fn spec_cfg(&self) -> SpecCfg {
        self.cfg.spec_cfg()
    }
    fn prelude(&self, w: &mut World) -> Result<(), MachineryError> {
        for p in &self.parts {
            if p.late {
                w.connect(p.slot)?;
            } else {
                w.register(p.slot, p.nick, p.user)?;
            }
        }
        for (s, l) in &self.prelude {
            w.send(*s, l)?;
        }
        Ok(())
    }
    fn actions(&self, v: &View) -> Vec<Act> {
        let mut acts = self.expand_all(v, &self.alphabet, &self.alphabet_for);
        for p in &self.parts {
            if p.late && v.life[p.slot] == crate::world::Life::Live && v.nick(p.slot).is_none() {
                acts.push(Act::Send(p.slot, format!("NICK {}", p.nick)));
                acts.push(Act::Send(p.slot, format!("USER {} 0 * :Late {}", p.user, p.user)));
            }
        }
        for p in &self.parts {
            if v.life[p.slot] == crate::world::Life::Live {
                for e in &self.ends {
                    match *e {
                        "eof" => acts.push(Act::Eof(p.slot)),
                        "eof_partial" => acts.push(Act::EofPartial(p.slot, "PIN".into())),
                        _ => {}
                    }
                }
            }
        }
        if let Some(f) = &self.extra_actions {
            acts.extend(f(self, v));
        }
        acts
    }
    fn probes(&self, v: &View) -> Vec<Act> {
        let mut acts = self.expand_all(v, &self.probes, &self.probes_for);
        if let Some(f) = &self.extra_probes {
            acts.extend(f(self, v));
        }
        acts
    }
    fn focus(&self) -> Focus {
        self.focus.clone()
    }
    fn probe_focus(&self) -> Focus {
        self.probe_focus.clone().unwrap_or_else(|| self.focus.clone())
    }
    fn invariants(&self) -> Vec<&'static str> {
        self.invariants.clone()
    }
    fn step_oracle(&self, pre: &View, obs: &StepObs, post: &View, goals: &mut BTreeSet<String>) -> Vec<Finding> {
        let mut out = match &self.step_oracle {
            Some(f) => f(self, pre, obs, post, goals),
            None => vec![],
        };
        // registration is for the life of the connection: no step may turn a live,
        // registered connection back into an unregistered one (it would be answered 451
        // from then on and skipped by the teardown)
        for i in 0..post.life.len().min(pre.life.len()) {
            let was = pre.life[i] == crate::world::Life::Live && pre.infos[i].as_ref().map_or(false, |x| x.authenticated && !x.has_sender);
            if was && post.life[i] == crate::world::Life::Live {
                if let Some(x) = post.infos[i].as_ref() {
                    if !x.authenticated {
                        out.push(Finding {
                            sig: "registration-lost".into(),
                            detail: format!("after {:?} the live connection of slot {} (registered before the step) no longer counts as registered", obs.act.render(), i),
                        });
                    }
                }
            }
        }
        if self.orphan_check {
            for p in &self.parts {
                if matches!(post.life[p.slot], crate::world::Life::Live | crate::world::Life::Unconnected | crate::world::Life::Panicked(_)) {
                    continue; // a panicked task is reported as such
                }
                for n in [p.nick, p.alt] {
                    if !post.m.users.contains_key(n) {
                        continue;
                    }
                    let owned = (0..post.life.len()).any(|j| j != p.slot && post.nick(j) == Some(n));
                    if !owned {
                        out.push(Finding {
                            sig: "orphan-user".into(),
                            detail: format!("after {:?} the connection of slot {} has ended but user {:?} is still in the server's user table and no live connection owns it", obs.act.render(), p.slot, n),
                        });
                    }
                }
            }
        }
        out
    }
    fn state_oracle(&self, w: &mut World, v: &View, goals: &mut BTreeSet<String>) -> Vec<Finding> {
        match &self.state_oracle {
            Some(f) => f(self, w, v, goals),
            None => vec![],
        }
    }
    fn after_step(&self, w: &mut World, pre: &View, obs: &StepObs, post: &View, goals: &mut BTreeSet<String>) -> Vec<Finding> {
        match &self.after_step {
            Some(f) => f(self, w, pre, obs, post, goals),
            None => vec![],
        }
    }
    fn goals(&self) -> Vec<&'static str> {
        self.goals.clone()
    }
    fn key_hist(&self, hist: &[Act]) -> u64 {
        if self.key_tried.is_empty() {
            return 0;
        }
        let mut seen: BTreeSet<(usize, &str)> = BTreeSet::new();
        for a in hist {
            if let Act::Send(i, l) = a {
                if self.key_tried.contains(i) {
                    seen.insert((*i, l.as_str()));
                }
            }
        }
        1 + (crate::canon::hash128(&seen) as u64 >> 1)
    }
    fn key_extra(&self, w: &World) -> u64 {
        if self.key_now {
            w.now
        } else {
            0
        }
    }
    fn spec_applies(&self, a: &Act) -> bool {
        match &self.spec_skip {
            Some(f) => !f(a),
            None => true,
        }
    }
}

pub fn part(slot: usize, nick: &'static str, alt: &'static str, user: &'static str) -> Part {
    Part { slot, nick, alt, user, late: false }
}

/// A participant whose registration lines belong to the searched alphabet.
pub fn late_part(slot: usize, nick: &'static str, alt: &'static str, user: &'static str) -> Part {
    Part { slot, nick, alt, user, late: true }
}
