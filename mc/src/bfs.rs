//! E-SEQ: explicit-state breadth-first search over the real server.
//!
//! A state is the action history reaching it; it is rebuilt by replaying the
//! history on a fresh `MainState`. States are deduplicated on a canonical key of
//! the real server state. Every transition is judged against the Spec
//! (restricted to the property's projection); in every state the scenario's
//! read-only probe battery and state oracles run.

use crate::canon::{hash128, masked};
use crate::check::{self, Finding, Focus, StepObs};
use crate::config::MainConfig;
use crate::spec::{self, SpecCfg, M};
use crate::state::verif::{ConnInfo, Snapshot};
use crate::world::{Life, MachineryError, World};
use std::collections::{BTreeMap, BTreeSet, HashSet};
use std::sync::atomic::{AtomicBool, Ordering};
use std::time::Instant;

#[derive(Clone, Debug, PartialEq, Eq, Hash, PartialOrd, Ord)]
pub enum Act {
    Connect(usize),
    Send(usize, String),
    Eof(usize),
    /// write an unterminated fragment, then close
    EofPartial(usize, String),
    Tick,
    /// a second passes and simultaneous events of one connection are served in reverse order
    TickReverse,
    /// put a line on the wire without letting the server read it yet
    Hold(usize, String),
    /// let the server read what is on the wire of this connection
    Release(usize),
    /// like Send, but connections with a held line read it before their
    /// other pending events (KILL notice, queue) are handled
    SendHeldFirst(usize, String),
    Raw(usize, Vec<u8>),
}

impl Act {
    pub fn actor(&self) -> Option<usize> {
        match self {
            Act::Connect(i) | Act::Send(i, _) | Act::Eof(i) | Act::EofPartial(i, _) | Act::Hold(i, _) | Act::Release(i) | Act::SendHeldFirst(i, _) | Act::Raw(i, _) => Some(*i),
            Act::Tick | Act::TickReverse => None,
        }
    }
    pub fn render(&self) -> String {
        match self {
            Act::Connect(i) => format!("{}:<connect>", i),
            Act::Send(i, l) => format!("{}:{}", i, l),
            Act::Eof(i) => format!("{}:<eof>", i),
            Act::EofPartial(i, l) => format!("{}:<eof after partial {:?}>", i, l),
            Act::Tick => "<tick 1s>".into(),
            Act::TickReverse => "<tick 1s, simultaneous events in reverse order>".into(),
            Act::Hold(i, l) => format!("{}:<hold> {}", i, l),
            Act::Release(i) => format!("{}:<release>", i),
            Act::SendHeldFirst(i, l) => format!("{}:<held-first> {}", i, l),
            Act::Raw(i, b) => format!("{}:<raw {:?}>", i, String::from_utf8_lossy(b)),
        }
    }
    pub fn to_json(&self) -> serde_json::Value {
        use serde_json::json;
        match self {
            Act::Connect(i) => json!({"op":"connect","slot":i}),
            Act::Send(i, l) => json!({"op":"send","slot":i,"line":l}),
            Act::Eof(i) => json!({"op":"eof","slot":i}),
            Act::EofPartial(i, l) => json!({"op":"eof_partial","slot":i,"line":l}),
            Act::Tick => json!({"op":"tick"}),
            Act::TickReverse => json!({"op":"tick-reverse"}),
            Act::Hold(i, l) => json!({"op":"hold","slot":i,"line":l}),
            Act::Release(i) => json!({"op":"release","slot":i}),
            Act::SendHeldFirst(i, l) => json!({"op":"send_held_first","slot":i,"line":l}),
            Act::Raw(i, b) => json!({"op":"raw","slot":i,"bytes":b}),
        }
    }
    pub fn from_json(v: &serde_json::Value) -> Option<Act> {
        let op = v.get("op")?.as_str()?;
        let slot = v.get("slot").and_then(|s| s.as_u64()).map(|s| s as usize);
        let line = v.get("line").and_then(|s| s.as_str()).map(|s| s.to_string());
        Some(match op {
            "connect" => Act::Connect(slot?),
            "send" => Act::Send(slot?, line?),
            "eof" => Act::Eof(slot?),
            "eof_partial" => Act::EofPartial(slot?, line?),
            "tick" => Act::Tick,
            "tick-reverse" => Act::TickReverse,
            "hold" => Act::Hold(slot?, line?),
            "release" => Act::Release(slot?),
            "send_held_first" => Act::SendHeldFirst(slot?, line?),
            "raw" => Act::Raw(slot?, v.get("bytes")?.as_array()?.iter().filter_map(|x| x.as_u64().map(|b| b as u8)).collect()),
            _ => return None,
        })
    }
}

/// What a scenario sees of a state.
pub struct View {
    pub snap: Snapshot,
    pub m: M,
    pub infos: Vec<Option<ConnInfo>>,
    pub life: Vec<Life>,
    pub avail: Vec<usize>,
    /// lines in flight per connection (not yet readable by the server)
    pub held: Vec<Vec<String>>,
    pub now: u64,
    pub depth: usize,
    /// the action history that led here (filled for state oracles)
    pub hist: Vec<Act>,
}

impl View {
    pub fn of(w: &mut World, depth: usize) -> View {
        let infos: Vec<Option<ConnInfo>> = (0..w.slots()).map(|i| w.info(i)).collect();
        let snap = w.snapshot();
        View {
            m: M::from_snapshot(&snap),
            snap,
            infos,
            life: w.conns.iter().map(|c| c.life.clone()).collect(),
            avail: w.conns.iter().map(|c| c.avail + c.held.len()).collect(),
            held: w.conns.iter().map(|c| c.held.iter().map(|b| String::from_utf8_lossy(b).trim_end().to_string()).collect()).collect(),
            now: w.now,
            depth,
            hist: vec![],
        }
    }
    /// nick of slot i if it is a registered, live connection
    pub fn nick(&self, i: usize) -> Option<&str> {
        if self.life[i] != Life::Live {
            return None;
        }
        let inf = self.infos[i].as_ref()?;
        if inf.authenticated && !inf.has_sender {
            inf.nick.as_deref()
        } else {
            None
        }
    }
    pub fn registered(&self, i: usize) -> bool {
        self.nick(i).map_or(false, |n| self.m.users.contains_key(n))
    }
}

pub trait Scenario: Sync {
    fn name(&self) -> String;
    fn slots(&self) -> usize;
    fn config(&self) -> MainConfig;
    fn spec_cfg(&self) -> SpecCfg;
    fn prelude(&self, _w: &mut World) -> Result<(), MachineryError> {
        Ok(())
    }
    fn actions(&self, v: &View) -> Vec<Act>;
    /// actions that must not change the canonical state; run in every state
    fn probes(&self, _v: &View) -> Vec<Act> {
        vec![]
    }
    fn focus(&self) -> Focus;
    /// focus used for probes (defaults to the step focus)
    fn probe_focus(&self) -> Focus {
        self.focus()
    }
    /// names of representation invariants this property owns
    fn invariants(&self) -> Vec<&'static str> {
        vec![]
    }
    /// property-specific oracle on a transition
    fn step_oracle(&self, _pre: &View, _obs: &StepObs, _post: &View, _goals: &mut BTreeSet<String>) -> Vec<Finding> {
        vec![]
    }
    /// property-specific oracle on a state (may run further read-only probes)
    fn state_oracle(&self, _w: &mut World, _v: &View, _goals: &mut BTreeSet<String>) -> Vec<Finding> {
        vec![]
    }
    /// oracle with access to the live world right after a transition (its
    /// probing happens after the successor key has been taken)
    fn after_step(&self, _w: &mut World, _pre: &View, _obs: &StepObs, _post: &View, _goals: &mut BTreeSet<String>) -> Vec<Finding> {
        vec![]
    }
    /// "sometimes" facts this scenario must observe at least once
    fn goals(&self) -> Vec<&'static str> {
        vec![]
    }
    /// extra component of the state key (timer phase etc.)
    fn key_extra(&self, _w: &World) -> u64 {
        0
    }
    /// state of a history-dependent oracle (reference model), as part of the state
    /// key: two histories may only be merged if the oracle will treat them alike
    fn key_hist(&self, _hist: &[Act]) -> u64 {
        0
    }
    /// whether the generic Spec comparison applies to this action
    fn spec_applies(&self, _a: &Act) -> bool {
        true
    }
}

#[derive(Clone, Debug)]
pub struct Violation {
    pub scenario: String,
    pub sig: String,
    pub detail: String,
    pub history: Vec<Act>,
    pub transcript: Vec<String>,
}

#[derive(Default, Clone, Debug)]
pub struct Stats {
    pub states: u64,
    pub transitions: u64,
    pub max_depth: usize,
    pub probes: u64,
    pub spec_checked: u64,
    pub spec_silent: u64,
    pub replays: u64,
    pub polls: u64,
    pub per_depth: Vec<u64>,
    pub exhausted: bool,
    pub cap_hit: Option<String>,
    pub wall_s: f64,
    pub goals_hit: BTreeSet<String>,
    pub samples: Vec<serde_json::Value>,
    pub outcome_classes: BTreeSet<String>,
}

pub struct Limits {
    pub depth: usize,
    pub max_states: u64,
    pub max_secs: f64,
    pub threads: usize,
}

pub fn state_key(scn: &dyn Scenario, w: &mut World) -> u128 {
    let infos: Vec<Option<ConnInfo>> = (0..w.slots()).map(|i| w.info(i)).collect();
    let snap = masked(&w.snapshot());
    let life: Vec<String> = w.conns.iter().map(|c| format!("{:?}", c.life)).collect();
    let avail: Vec<usize> = w.conns.iter().map(|c| c.avail).collect();
    let held: Vec<Vec<Vec<u8>>> = w.conns.iter().map(|c| c.held.iter().cloned().collect()).collect();
    let closed: Vec<bool> = w.conns.iter().map(|c| c.client_closed).collect();
    hash128(&(snap, infos, life, avail, held, closed, scn.key_extra(w)))
}

/// State key including the scenario's history-dependent oracle state.
pub fn full_key(scn: &dyn Scenario, w: &mut World, hist: &[Act]) -> u128 {
    let k = state_key(scn, w);
    let h = scn.key_hist(hist);
    if h == 0 {
        k
    } else {
        hash128(&(k, h))
    }
}

pub fn apply(w: &mut World, a: &Act) -> Result<(), MachineryError> {
    match a {
        Act::Connect(i) => {
            w.connect(*i)?;
            w.settle()
        }
        Act::Send(i, l) => w.send(*i, l),
        Act::Eof(i) => w.eof(*i),
        Act::EofPartial(i, l) => {
            w.write_raw(*i, l.as_bytes());
            w.eof(*i)
        }
        Act::Tick => w.tick(),
        Act::TickReverse => w.tick_reverse(),
        Act::Hold(i, l) => {
            w.hold_line(*i, l);
            Ok(())
        }
        Act::Release(i) => {
            w.pump_socket(*i)?;
            w.settle()
        }
        Act::SendHeldFirst(i, l) => {
            w.write_line(*i, l);
            w.pump_socket(*i)?;
            for j in 0..w.slots() {
                if j != *i {
                    w.pump_socket(j)?;
                }
            }
            w.settle()
        }
        Act::Raw(i, b) => {
            w.write_raw(*i, b);
            w.pump_socket(*i)?;
            w.settle()
        }
    }
}

/// Build the world of a history (prelude + actions), no checking.
pub fn build(scn: &dyn Scenario, hist: &[Act]) -> Result<World, MachineryError> {
    let mut w = World::new(scn.config(), scn.slots());
    scn.prelude(&mut w)?;
    w.take_all();
    for a in hist {
        apply(&mut w, a)?;
        w.take_all();
    }
    Ok(w)
}

/// Execute one action on a world and collect the observation record.
pub fn observe(w: &mut World, a: &Act, depth: usize) -> Result<(View, StepObs, View), MachineryError> {
    let pre = View::of(w, depth);
    w.take_all();
    apply(w, a)?;
    let lines = w.take_all();
    let post = View::of(w, depth + 1);
    let obs = StepObs {
        act: a.clone(),
        pre: pre.snap.clone(),
        post: post.snap.clone(),
        pre_infos: pre.infos.clone(),
        post_infos: post.infos.clone(),
        pre_life: pre.life.clone(),
        pre_held: pre.held.clone(),
        post_life: post.life.clone(),
        lines,
    };
    Ok((pre, obs, post))
}

pub fn transcript(scn: &dyn Scenario, hist: &[Act]) -> Vec<String> {
    let mut out = vec![];
    let mut w = World::new(scn.config(), scn.slots());
    if scn.prelude(&mut w).is_err() {
        return out;
    }
    w.take_all();
    for a in hist {
        out.push(format!(">> {}", a.render()));
        if apply(&mut w, a).is_err() {
            out.push("!! machinery error".into());
            break;
        }
        for (i, ls) in w.take_all().into_iter().enumerate() {
            for l in ls {
                out.push(format!("   [{}] {}", i, l));
            }
        }
        for (i, c) in w.conns.iter().enumerate() {
            if let Life::Panicked(m) = &c.life {
                out.push(format!("   [{}] PANIC {}", i, m));
            }
        }
    }
    out
}

/// Judge one observed step: generic Spec comparison + invariants + scenario oracle.
pub fn judge(scn: &dyn Scenario, cfg: &SpecCfg, focus: &Focus, pre: &View, obs: &StepObs, post: &View, goals: &mut BTreeSet<String>, stats: &mut (u64, u64)) -> Vec<Finding> {
    let mut f = vec![];
    // a connection task that aborts abnormally means the command did not take
    // effect as any property describes it
    for (i, l) in post.life.iter().enumerate() {
        if let Life::Panicked(msg) = l {
            if !matches!(pre.life[i], Life::Panicked(_)) {
                let loc = msg.rsplit(" @ ").next().unwrap_or("").rsplit('/').next().unwrap_or("").to_string();
                f.push(Finding {
                    sig: format!("panic:{}", loc),
                    detail: format!("connection task {} aborted abnormally handling {:?}: {}", i, obs.act.render(), msg),
                });
            }
        }
    }
    if !f.is_empty() {
        return f;
    }
    if scn.spec_applies(&obs.act) {
        let (ff, had) = check::check_step(cfg, obs, focus);
        if had {
            stats.0 += 1;
        } else {
            stats.1 += 1;
        }
        f.extend(ff);
    }
    let owned = scn.invariants();
    if !owned.is_empty() {
        for (name, msg) in spec::rep_invariants(&obs.post) {
            if owned.contains(&name) {
                f.push(Finding {
                    sig: format!("inv:{}", name),
                    detail: msg,
                });
            }
        }
    }
    f.extend(scn.step_oracle(pre, obs, post, goals));
    f
}

struct Expansion {
    acts: Vec<Act>,
    succ: Vec<(Act, u128)>,
    violations: Vec<Violation>,
    probes: u64,
    spec_checked: u64,
    spec_silent: u64,
    replays: u64,
    polls: u64,
    goals: BTreeSet<String>,
    classes: BTreeSet<String>,
    sample: Option<serde_json::Value>,
    machinery: Option<String>,
}

impl Expansion {
    fn empty() -> Expansion {
        Expansion {
            acts: vec![],
            succ: vec![],
            violations: vec![],
            probes: 0,
            spec_checked: 0,
            spec_silent: 0,
            replays: 0,
            polls: 0,
            goals: BTreeSet::new(),
            classes: BTreeSet::new(),
            sample: None,
            machinery: None,
        }
    }
}

/// Phase A of a state: rebuild, determinism check, state oracle, probes, and
/// the list of enabled actions.
fn expand(scn: &dyn Scenario, hist: &[Act], key: u128, want_sample: bool) -> Expansion {
    let mut ex = Expansion::empty();
    let cfg = scn.spec_cfg();
    let depth = hist.len();
    macro_rules! mach {
        ($e:expr) => {
            match $e {
                Ok(v) => v,
                Err(MachineryError(m)) => {
                    ex.machinery = Some(format!("{} (history {:?})", m, hist.iter().map(|a| a.render()).collect::<Vec<_>>()));
                    return ex;
                }
            }
        };
    }
    let mut w = mach!(build(scn, hist));
    ex.replays += 1;
    let k0 = full_key(scn, &mut w, hist);
    if k0 != key {
        ex.machinery = Some(format!("replay divergence: state key differs on rebuild (history {:?})", hist.iter().map(|a| a.render()).collect::<Vec<_>>()));
        return ex;
    }
    let mut view = View::of(&mut w, depth);
    view.hist = hist.to_vec();
    // state oracle
    let mut st = (0u64, 0u64);
    for f in scn.state_oracle(&mut w, &view, &mut ex.goals) {
        let mut h = hist.to_vec();
        h.push(Act::Tick); // placeholder never replayed: marks "state oracle"
        h.pop();
        ex.violations.push(Violation {
            scenario: scn.name(),
            sig: f.sig,
            detail: f.detail,
            transcript: vec![],
            history: hist.to_vec(),
        });
    }
    // probes on the same instance
    let pfocus = scn.probe_focus();
    let mut sample_probes = vec![];
    for p in scn.probes(&view) {
        let (pre, obs, post) = mach!(observe(&mut w, &p, depth));
        ex.probes += 1;
        let fs = judge(scn, &cfg, &pfocus, &pre, &obs, &post, &mut ex.goals, &mut st);
        let k1 = full_key(scn, &mut w, hist);
        if want_sample && sample_probes.len() < 3 {
            sample_probes.push(serde_json::json!({"probe": p.render(), "lines": obs.lines}));
        }
        for f in fs {
            let mut h = hist.to_vec();
            h.push(p.clone());
            ex.violations.push(Violation {
                scenario: scn.name(),
                sig: f.sig,
                detail: f.detail,
                transcript: vec![],
                history: h,
            });
        }
        if k1 != key {
            // a probe that changes the canonical state is a machinery error: probes
            // are declared read-only by the scenario
            if ex.violations.is_empty() {
                ex.machinery = Some(format!("probe {:?} changed the canonical state (history {:?})", p.render(), hist.iter().map(|a| a.render()).collect::<Vec<_>>()));
                return ex;
            } else {
                break;
            }
        }
    }
    ex.polls += w.polls;
    ex.spec_checked = st.0;
    ex.spec_silent = st.1;
    ex.acts = scn.actions(&view);
    if want_sample {
        ex.sample = Some(serde_json::json!({
            "history": hist.iter().map(|x| x.render()).collect::<Vec<_>>(),
            "probes": sample_probes,
        }));
    }
    ex
}

/// Execute one action from the state reached by `hist` and judge it.
fn one_action(scn: &dyn Scenario, hist: &[Act], a: &Act, want_sample: bool) -> Expansion {
    let mut ex = Expansion::empty();
    let cfg = scn.spec_cfg();
    let depth = hist.len();
    let mut w2 = match build(scn, hist) {
        Ok(w) => w,
        Err(MachineryError(m)) => {
            ex.machinery = Some(format!("{} (history {:?})", m, hist.iter().map(|a| a.render()).collect::<Vec<_>>()));
            return ex;
        }
    };
    ex.replays += 1;
    let mut st = (0u64, 0u64);
    let (pre, obs, post) = match observe(&mut w2, a, depth) {
        Ok(x) => x,
        Err(MachineryError(m)) => {
            // a connection that can no longer be driven is a finding for the scenario
            // (stalled handler), reported through the step oracle path
            let mut h = hist.to_vec();
            h.push(a.clone());
            ex.violations.push(Violation {
                scenario: scn.name(),
                sig: "stalled".into(),
                detail: format!("the server stopped making progress: {}", m),
                transcript: vec![],
                history: h,
            });
            return ex;
        }
    };
    let mut fs = judge(scn, &cfg, &scn.focus(), &pre, &obs, &post, &mut ex.goals, &mut st);
    let k = {
        let mut h2 = hist.to_vec();
        h2.push(a.clone());
        full_key(scn, &mut w2, &h2)
    };
    if fs.is_empty() {
        fs.extend(scn.after_step(&mut w2, &pre, &obs, &post, &mut ex.goals));
    }
    ex.polls += w2.polls;
    if fs.is_empty() {
        ex.succ.push((a.clone(), k));
    } else {
        let mut h = hist.to_vec();
        h.push(a.clone());
        let tr: Vec<String> = vec![];
        for f in fs {
            ex.violations.push(Violation {
                scenario: scn.name(),
                sig: f.sig,
                detail: f.detail,
                transcript: tr.clone(),
                history: h.clone(),
            });
        }
    }
    if want_sample {
        ex.sample = Some(serde_json::json!({
            "history": hist.iter().map(|x| x.render()).collect::<Vec<_>>(),
            "action": a.render(),
            "observed": obs.lines,
        }));
    }
    ex.spec_checked = st.0;
    ex.spec_silent = st.1;
    ex
}

pub static STOP: AtomicBool = AtomicBool::new(false);

pub struct BfsOut {
    pub stats: Stats,
    pub violations: Vec<Violation>,
    pub machinery: Option<String>,
}

fn par_map<T: Sync, R: Send>(items: &[T], threads: usize, f: impl Fn(usize, &T) -> R + Sync) -> Vec<R> {
    let n = items.len();
    let chunk = ((n + threads * 8 - 1) / (threads * 8).max(1)).max(1);
    let idx = std::sync::atomic::AtomicUsize::new(0);
    let out: std::sync::Mutex<Vec<(usize, R)>> = std::sync::Mutex::new(Vec::with_capacity(n));
    std::thread::scope(|s| {
        for _ in 0..threads.max(1) {
            s.spawn(|| loop {
                let start = idx.fetch_add(chunk, Ordering::SeqCst);
                if start >= n {
                    break;
                }
                let end = (start + chunk).min(n);
                let mut local = Vec::with_capacity(end - start);
                for i in start..end {
                    local.push((i, f(i, &items[i])));
                }
                out.lock().unwrap().extend(local);
            });
        }
    });
    let mut v = out.into_inner().unwrap();
    v.sort_by_key(|x| x.0);
    v.into_iter().map(|x| x.1).collect()
}

pub fn run(scn: &dyn Scenario, lim: &Limits) -> BfsOut {
    let t0 = Instant::now();
    let mut stats = Stats::default();
    let mut violations: Vec<Violation> = vec![];
    let mut seen: HashSet<u128> = HashSet::new();
    // initial state
    let k0 = match build(scn, &[]) {
        Ok(mut w) => full_key(scn, &mut w, &[]),
        Err(MachineryError(m)) => {
            return BfsOut {
                stats,
                violations,
                machinery: Some(format!("prelude failed: {}", m)),
            }
        }
    };
    seen.insert(k0);
    let mut frontier: Vec<(Vec<Act>, u128)> = vec![(vec![], k0)];
    stats.states = 1;
    stats.exhausted = true;
    let mut depth = 0;
    macro_rules! absorb {
        ($ex:expr) => {{
            let ex = $ex;
            if let Some(m) = ex.machinery {
                return BfsOut {
                    stats,
                    violations,
                    machinery: Some(m),
                };
            }
            stats.probes += ex.probes;
            stats.spec_checked += ex.spec_checked;
            stats.spec_silent += ex.spec_silent;
            stats.replays += ex.replays;
            stats.polls += ex.polls;
            stats.goals_hit.extend(ex.goals);
            stats.outcome_classes.extend(ex.classes);
            if let Some(s) = ex.sample {
                if stats.samples.len() < 4 {
                    stats.samples.push(s);
                }
            }
            violations.extend(ex.violations);
            (ex.acts, ex.succ)
        }};
    }
    loop {
        let n = frontier.len();
        stats.per_depth.push(n as u64);
        let last_level = depth >= lim.depth;
        let want_sample_at = if stats.samples.len() < 2 { n / 2 } else { usize::MAX };
        // phase A: every state of this level (oracle, probes, enabled actions)
        let prepped = par_map(&frontier, lim.threads, |i, (h, k)| {
            if last_level {
                expand_leaf(scn, h, *k)
            } else {
                expand(scn, h, *k, i == want_sample_at)
            }
        });
        let mut work: Vec<(usize, Act)> = vec![];
        for (i, ex) in prepped.into_iter().enumerate() {
            let (acts, _) = absorb!(ex);
            for a in acts {
                work.push((i, a));
            }
        }
        if last_level {
            break;
        }
        // phase B: every (state, action) of this level
        let fr = &frontier;
        let sample_unit = if stats.samples.len() < 4 { work.len() / 2 } else { usize::MAX };
        let done = par_map(&work, lim.threads, |j, (i, a)| one_action(scn, &fr[*i].0, a, j == sample_unit));
        let mut next: Vec<(Vec<Act>, u128)> = vec![];
        stats.transitions += work.len() as u64;
        for (j, ex) in done.into_iter().enumerate() {
            let i = work[j].0;
            let (_, succ) = absorb!(ex);
            for (a, k) in succ {
                if seen.insert(k) {
                    let mut h = frontier[i].0.clone();
                    h.push(a);
                    next.push((h, k));
                }
            }
        }
        stats.states += next.len() as u64;
        if next.is_empty() {
            break;
        }
        depth += 1;
        stats.max_depth = depth;
        frontier = next;
        if violations.len() > 200 {
            stats.exhausted = false;
            stats.cap_hit = Some("more than 200 violations; search stopped".into());
            break;
        }
        if stats.states > lim.max_states {
            stats.exhausted = false;
            stats.cap_hit = Some(format!("state cap {} reached at depth {} (levels below fully explored)", lim.max_states, depth));
            break;
        }
        if t0.elapsed().as_secs_f64() > lim.max_secs {
            stats.exhausted = false;
            stats.cap_hit = Some(format!("time cap {}s reached at depth {} (levels below fully explored)", lim.max_secs, depth));
            break;
        }
    }
    stats.wall_s = t0.elapsed().as_secs_f64();
    BfsOut {
        stats,
        violations,
        machinery: None,
    }
}

/// A state at the depth bound: oracle and probes only.
fn expand_leaf(scn: &dyn Scenario, hist: &[Act], key: u128) -> Expansion {
    let mut ex = Expansion::empty();
    ex.replays = 1;
    let cfg = scn.spec_cfg();
    let depth = hist.len();
    let mut w = match build(scn, hist) {
        Ok(w) => w,
        Err(MachineryError(m)) => {
            ex.machinery = Some(m);
            return ex;
        }
    };
    let k0 = full_key(scn, &mut w, hist);
    if k0 != key {
        ex.machinery = Some(format!("replay divergence at leaf (history {:?})", hist.iter().map(|a| a.render()).collect::<Vec<_>>()));
        return ex;
    }
    let mut view = View::of(&mut w, depth);
    view.hist = hist.to_vec();
    let mut st = (0u64, 0u64);
    for f in scn.state_oracle(&mut w, &view, &mut ex.goals) {
        ex.violations.push(Violation {
            scenario: scn.name(),
            sig: f.sig,
            detail: f.detail,
            transcript: vec![],
            history: hist.to_vec(),
        });
    }
    let pfocus = scn.probe_focus();
    for p in scn.probes(&view) {
        let (pre, obs, post) = match observe(&mut w, &p, depth) {
            Ok(x) => x,
            Err(MachineryError(m)) => {
                ex.machinery = Some(m);
                return ex;
            }
        };
        ex.probes += 1;
        let fs = judge(scn, &cfg, &pfocus, &pre, &obs, &post, &mut ex.goals, &mut st);
        let k1 = full_key(scn, &mut w, hist);
        for f in fs {
            let mut h = hist.to_vec();
            h.push(p.clone());
            ex.violations.push(Violation {
                scenario: scn.name(),
                sig: f.sig,
                detail: f.detail,
                transcript: vec![],
                history: h,
            });
        }
        if k1 != key {
            if ex.violations.is_empty() {
                ex.machinery = Some(format!("probe {:?} changed the canonical state at leaf", p.render()));
            }
            break;
        }
    }
    ex.polls = w.polls;
    ex.spec_checked = st.0;
    ex.spec_silent = st.1;
    ex
}
