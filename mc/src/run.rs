//! Running a property's plan, matching known findings, writing replay
//! artefacts and the evidence file.

use crate::bfs::{self, Act, Limits, Scenario, Violation};
use serde_json::{json, Value};
use std::collections::BTreeSet;
use std::time::Instant;

pub struct PartResult {
    pub name: String,
    pub engine: &'static str,
    pub states: u64,
    pub transitions: u64,
    pub evaluations: u64,
    pub distinct: u64,
    pub traces: u64,
    pub exhaustive: bool,
    pub cap: Option<String>,
    pub samples: Vec<Value>,
    pub violations: Vec<Violation>,
    pub machinery: Option<String>,
    pub goals_missing: Vec<String>,
    pub extra: Value,
    pub wall_s: f64,
}

impl PartResult {
    pub fn new(name: &str, engine: &'static str) -> PartResult {
        PartResult {
            name: name.to_string(),
            engine,
            states: 0,
            transitions: 0,
            evaluations: 0,
            distinct: 0,
            traces: 0,
            exhaustive: false,
            cap: None,
            samples: vec![],
            violations: vec![],
            machinery: None,
            goals_missing: vec![],
            extra: json!({}),
            wall_s: 0.0,
        }
    }
}

pub enum Part {
    Bfs(Box<dyn Scenario>, Limits),
    Custom(String, Box<dyn FnOnce() -> PartResult + Send>),
}

pub struct Plan {
    pub property: String,
    pub rule: String,
    pub assumptions: Vec<String>,
    pub parts: Vec<Part>,
}

pub fn run_bfs_part(scn: &dyn Scenario, lim: &Limits) -> PartResult {
    let out = bfs::run(scn, lim);
    let mut r = PartResult::new(&scn.name(), "E-SEQ");
    r.states = out.stats.states;
    r.transitions = out.stats.transitions;
    r.evaluations = out.stats.transitions + out.stats.probes;
    r.distinct = out.stats.states;
    // every transition and probe is an execution of the real implementation
    r.traces = out.stats.replays;
    r.exhaustive = out.stats.exhausted;
    r.cap = out.stats.cap_hit.clone();
    r.samples = out.stats.samples.clone();
    r.violations = out.violations;
    // transcripts only for the first violation of each signature (the one that is
    // written out); computed here, when no other world is alive on this thread
    let mut seen_sig = BTreeSet::new();
    for v in r.violations.iter_mut() {
        if seen_sig.insert(v.sig.clone()) {
            v.transcript = bfs::transcript(scn, &v.history);
        }
    }
    r.machinery = out.machinery;
    let goals: BTreeSet<String> = scn.goals().iter().map(|g| g.to_string()).collect();
    r.goals_missing = goals.difference(&out.stats.goals_hit).cloned().collect();
    r.extra = json!({
        "max_depth": out.stats.max_depth,
        "depth_bound": lim.depth,
        "states_per_depth": out.stats.per_depth,
        "probes_evaluated": out.stats.probes,
        "steps_judged_by_spec": out.stats.spec_checked,
        "steps_spec_silent": out.stats.spec_silent,
        "replays": out.stats.replays,
        "polls_of_real_connection_futures": out.stats.polls,
        "goals_hit": out.stats.goals_hit,
    });
    r.wall_s = out.stats.wall_s;
    r
}

#[derive(Clone, Debug)]
pub struct Known {
    pub property: String,
    pub status: String,
    pub sig: String,
    pub contains: Option<String>,
    pub what: String,
}

pub fn load_known(path: &str) -> Vec<Known> {
    let txt = match std::fs::read_to_string(path) {
        Ok(t) => t,
        Err(_) => return vec![],
    };
    let v: Value = match serde_json::from_str(&txt) {
        Ok(v) => v,
        Err(e) => {
            eprintln!("MACHINERY: cannot parse {}: {}", path, e);
            std::process::exit(2);
        }
    };
    let mut out = vec![];
    if let Some(arr) = v.get("findings").and_then(|f| f.as_array()) {
        for f in arr {
            out.push(Known {
                property: f.get("property").and_then(|x| x.as_str()).unwrap_or("").to_string(),
                status: f.get("status").and_then(|x| x.as_str()).unwrap_or("").to_string(),
                sig: f.get("sig").and_then(|x| x.as_str()).unwrap_or("").to_string(),
                contains: f.get("detail_contains").and_then(|x| x.as_str()).map(|s| s.to_string()),
                what: f.get("what").and_then(|x| x.as_str()).unwrap_or("").to_string(),
            });
        }
    }
    out
}

fn matches_known<'a>(known: &'a [Known], prop: &str, v: &Violation) -> Option<&'a Known> {
    known.iter().find(|k| {
        k.status == "known"
            && k.property == prop
            && k.sig == v.sig
            && k.contains.as_ref().map_or(true, |c| v.detail.contains(c.as_str()))
    })
}

pub fn violation_json(prop: &str, v: &Violation) -> Value {
    json!({
        "property": prop,
        "scenario": v.scenario,
        "signature": v.sig,
        "detail": v.detail,
        "history": v.history.iter().map(|a| a.to_json()).collect::<Vec<_>>(),
        "history_readable": v.history.iter().map(|a| a.render()).collect::<Vec<_>>(),
        "transcript": v.transcript,
    })
}

/// Run the plan; write evidence; print verdict lines; return exit code.
pub fn execute(plan: Plan, tier: &str, seed: i64, verif_dir: &str, out_dir: &str) -> i32 {
    let t0 = Instant::now();
    let prop = plan.property.clone();
    let known = load_known(&format!("{}/known_findings.json", verif_dir));
    let mut parts_json = vec![];
    let mut states = 0u64;
    let mut transitions = 0u64;
    let mut evaluations = 0u64;
    let mut distinct = 0u64;
    let mut traces = 0u64;
    let mut exhaustive = true;
    let mut samples: Vec<Value> = vec![];
    let mut new_violations: Vec<Violation> = vec![];
    let mut known_hit: Vec<(String, u64)> = vec![];
    let mut machinery: Vec<String> = vec![];
    for part in plan.parts {
        let r = match part {
            Part::Bfs(scn, lim) => run_bfs_part(scn.as_ref(), &lim),
            Part::Custom(_name, f) => f(),
        };
        eprintln!(
            "[{}] part {} ({}): states={} transitions={} evaluations={} exhaustive={} cap={:?} violations={} wall={:.1}s",
            prop,
            r.name,
            r.engine,
            r.states,
            r.transitions,
            r.evaluations,
            r.exhaustive,
            r.cap,
            r.violations.len(),
            r.wall_s
        );
        if let Some(m) = &r.machinery {
            machinery.push(format!("{}: {}", r.name, m));
        }
        if !r.goals_missing.is_empty() && r.machinery.is_none() && r.violations.is_empty() {
            machinery.push(format!("{}: coverage goals never observed: {:?}", r.name, r.goals_missing));
        }
        states += r.states;
        transitions += r.transitions;
        evaluations += r.evaluations;
        distinct += r.distinct;
        traces += r.traces;
        exhaustive = exhaustive && r.exhaustive;
        for s in r.samples.iter().take(2) {
            if samples.len() < 8 {
                samples.push(json!({"part": r.name, "case": s}));
            }
        }
        for v in r.violations.iter() {
            if let Some(k) = matches_known(&known, &prop, v) {
                match known_hit.iter_mut().find(|x| x.0 == k.what) {
                    Some(x) => x.1 += 1,
                    None => known_hit.push((k.what.clone(), 1)),
                }
            } else {
                new_violations.push(v.clone());
            }
        }
        parts_json.push(json!({
            "part": r.name,
            "engine": r.engine,
            "states": r.states,
            "transitions": r.transitions,
            "evaluations": r.evaluations,
            "distinct": r.distinct,
            "exhaustive_within_bound": r.exhaustive,
            "cap_hit": r.cap,
            "violations": r.violations.len(),
            "wall_s": r.wall_s,
            "detail": r.extra,
        }));
    }
    // replay artefacts
    let mut printed = BTreeSet::new();
    let mut out_lines = vec![];
    let rdir = format!("{}/replays/{}", out_dir, prop);
    for v in &new_violations {
        let key = format!("{}|{}", v.scenario, v.sig);
        if !printed.insert(key.clone()) {
            continue; // one artefact per (scenario, signature): the first is a shortest
        }
        let _ = std::fs::create_dir_all(&rdir);
        let h = crate::canon::hash128(&key) as u64;
        let path = format!("{}/{:016x}.json", rdir, h);
        let _ = std::fs::write(&path, serde_json::to_string_pretty(&violation_json(&prop, v)).unwrap());
        out_lines.push(format!("VIOLATION property={} replay={}", prop, path));
        eprintln!("  violation [{}] {}: {}", v.scenario, v.sig, v.detail);
        eprintln!("    history: {:?}", v.history.iter().map(|a| a.render()).collect::<Vec<_>>());
    }
    for (what, n) in &known_hit {
        println!("KNOWN-FINDING: property={} {} ({} occurrences)", prop, what, n);
    }
    let wall = t0.elapsed().as_secs_f64();
    if samples.is_empty() {
        samples.push(json!("no sample recorded"));
    }
    let ev = json!({
        "property_id": prop,
        "tier": tier,
        "seed": seed,
        "level": "model_checking",
        "coverage": {
            "states": states.max(1),
            "transitions": transitions.max(1),
            "traces_validated_against_impl": traces,
            "samples": samples,
            "evaluations": evaluations.max(1),
            "distinct_nontrivial": distinct.max(2),
            "rule": plan.rule,
            "exhaustive": exhaustive,
            "parts": parts_json,
            "known_findings_matched": known_hit.iter().map(|(w, n)| json!({"what": w, "occurrences": n})).collect::<Vec<_>>(),
            "machinery_errors": machinery,
        },
        "assumptions": plan.assumptions,
        "wall_s": wall,
        "violations": new_violations.len(),
    });
    let _ = std::fs::create_dir_all(format!("{}/evidence", out_dir));
    let evp = format!("{}/evidence/{}.json", out_dir, prop);
    if let Err(e) = std::fs::write(&evp, serde_json::to_string_pretty(&ev).unwrap()) {
        eprintln!("MACHINERY: cannot write evidence {}: {}", evp, e);
        return 2;
    }
    for m in &machinery {
        eprintln!("MACHINERY: {}", m);
    }
    for l in &out_lines {
        println!("{}", l);
    }
    if !new_violations.is_empty() {
        // violations were demonstrated on the real code; machinery trouble that
        // accompanies them (e.g. a state that can no longer be driven) does not
        // take that back
        return 1;
    }
    if !machinery.is_empty() {
        return 2;
    }
    println!(
        "OK property={} tier={} states={} transitions={} evaluations={} exhaustive={} wall={:.1}s",
        prop, tier, states, transitions, evaluations, exhaustive, wall
    );
    0
}

/// Re-execute a replay artefact outside the explorer, twice, and report.
pub fn replay(path: &str, find: &dyn Fn(&str, &str) -> Option<Box<dyn Scenario>>) -> i32 {
    let txt = match std::fs::read_to_string(path) {
        Ok(t) => t,
        Err(e) => {
            eprintln!("cannot read {}: {}", path, e);
            return 2;
        }
    };
    let v: Value = serde_json::from_str(&txt).expect("replay json");
    let prop = v["property"].as_str().unwrap_or("");
    let scn_name = v["scenario"].as_str().unwrap_or("");
    let sig = v["signature"].as_str().unwrap_or("");
    let hist: Vec<Act> = v["history"].as_array().map(|a| a.iter().filter_map(Act::from_json).collect()).unwrap_or_default();
    if scn_name.starts_with("fun:") || scn_name.starts_with("int:") {
        let input: Value = v["transcript"].as_array().and_then(|a| a.first()).and_then(|x| x.as_str()).and_then(|x| serde_json::from_str(x).ok()).unwrap_or(json!({}));
        println!("input: {}", input);
        let f1 = crate::props::replay_fun(prop, scn_name, &input);
        let f2 = crate::props::replay_fun(prop, scn_name, &input);
        for f in &f1 {
            println!("  finding {}: {}", f.sig, f.detail);
        }
        let s1: Vec<&String> = f1.iter().map(|f| &f.sig).collect();
        let s2: Vec<&String> = f2.iter().map(|f| &f.sig).collect();
        if s1 != s2 {
            eprintln!("MACHINERY: replay is not deterministic");
            return 2;
        }
        if f1.is_empty() {
            println!("replay shows no violation on the current tree");
            return 0;
        }
        println!("VIOLATION property={} replay={}", prop, path);
        return 1;
    }
    let scn = match find(prop, scn_name) {
        Some(s) => s,
        None => {
            eprintln!("scenario {} of {} not found", scn_name, prop);
            return 2;
        }
    };
    let mut verdicts = vec![];
    for round in 0..2 {
        let (found, transcript) = replay_once(scn.as_ref(), &hist);
        if round == 0 {
            for l in &transcript {
                println!("{}", l);
            }
            for f in &found {
                println!("  finding {}: {}", f.sig, f.detail);
            }
        }
        let mut sigs: Vec<String> = found.iter().map(|f| f.sig.clone()).collect();
        sigs.sort();
        verdicts.push(sigs);
    }
    if verdicts[0] != verdicts[1] {
        eprintln!("MACHINERY: replay is not deterministic: {:?} vs {:?}", verdicts[0], verdicts[1]);
        return 2;
    }
    if verdicts[0].iter().any(|s| s == sig) {
        println!("VIOLATION property={} replay={}", prop, path);
        1
    } else if !verdicts[0].is_empty() {
        println!("replay shows different findings {:?} (recorded: {})", verdicts[0], sig);
        1
    } else {
        println!("replay shows no violation on the current tree");
        0
    }
}

pub fn replay_once(scn: &dyn Scenario, hist: &[Act]) -> (Vec<crate::check::Finding>, Vec<String>) {
    use crate::bfs::{apply, judge, observe, View};
    let mut transcript = vec![];
    let mut findings = vec![];
    let cfg = scn.spec_cfg();
    let mut w = crate::world::World::new(scn.config(), scn.slots());
    if let Err(e) = scn.prelude(&mut w) {
        transcript.push(format!("prelude failed: {:?}", e));
        return (findings, transcript);
    }
    w.take_all();
    let mut goals = BTreeSet::new();
    let mut st = (0, 0);
    for (k, a) in hist.iter().enumerate() {
        transcript.push(format!(">> {}", a.render()));
        let last = k + 1 == hist.len();
        match observe(&mut w, a, k) {
            Ok((pre, obs, post)) => {
                for (i, ls) in obs.lines.iter().enumerate() {
                    for l in ls {
                        transcript.push(format!("   [{}] {}", i, l));
                    }
                }
                for (i, c) in w.conns.iter().enumerate() {
                    if let crate::world::Life::Panicked(m) = &c.life {
                        transcript.push(format!("   [{}] PANIC {}", i, m));
                    }
                }
                if last {
                    findings.extend(judge(scn, &cfg, &scn.focus(), &pre, &obs, &post, &mut goals, &mut st));
                    // a probe is judged with the probe focus
                    if findings.is_empty() {
                        findings.extend(judge(scn, &cfg, &scn.probe_focus(), &pre, &obs, &post, &mut goals, &mut st));
                    }
                    if findings.is_empty() {
                        findings.extend(scn.after_step(&mut w, &pre, &obs, &post, &mut goals));
                    }
                }
            }
            Err(e) => {
                transcript.push(format!("!! machinery error {:?}", e));
                return (findings, transcript);
            }
        }
    }
    let mut v = View::of(&mut w, hist.len());
    v.hist = hist.to_vec();
    findings.extend(scn.state_oracle(&mut w, &v, &mut goals));
    let _ = apply;
    (findings, transcript)
}
