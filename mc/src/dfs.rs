//! E-INT: exhaustive interleavings of real connection futures.
//!
//! A burst of commands by 2-3 connections is executed under every schedule,
//! one tokio synchronisation operation per step: before each poll the tokio
//! cooperative budget is burnt down to one unit, so the first resource
//! operation inside the poll consumes it and the next returns Pending. The
//! oracle is linearizability against the implementation run sequentially.

use crate::canon::{canon_line, hash128, masked, tokenize};
use crate::scn::Cfg;
use crate::spec;
use crate::state::verif::{self, Directive};
use crate::world::{Life, MachineryError, World};
use std::collections::{BTreeMap, BTreeSet, HashMap};
use std::future::Future;
use std::pin::Pin;
use std::sync::atomic::{AtomicBool, AtomicU64, Ordering};
use std::sync::{Arc, Mutex};
use std::task::{Context, Poll, Wake, Waker};

pub struct WakeFlag(pub AtomicBool);

impl Wake for WakeFlag {
    fn wake(self: Arc<Self>) {
        self.0.store(true, Ordering::SeqCst);
    }
    fn wake_by_ref(self: &Arc<Self>) {
        self.0.store(true, Ordering::SeqCst);
    }
}

#[derive(Clone, Debug, PartialEq, Eq)]
pub enum StepOut {
    Finished,
    Progress,
    NoProgress,
    Panicked,
}

impl World {
    /// Poll connection `i` once with exactly one unit of tokio cooperative
    /// budget: at most one tokio synchronisation operation completes.
    pub fn step_conn(&mut self, i: usize, flag: &Arc<WakeFlag>) -> StepOut {
        verif::select(self.ctl);
        verif::set_current(i);
        self.polls += 1;
        let waker = Waker::from(flag.clone());
        let mut fut = match self.conns[i].fut.take() {
            Some(f) => f,
            None => return StepOut::Finished,
        };
        crate::world::set_quiet_panics(true);
        let (res, progressed) = self.rt.block_on(std::future::poll_fn(|cx| {
            // burn the budget down to one unit
            for _ in 0..127 {
                match tokio::task::coop::poll_proceed(cx) {
                    Poll::Ready(r) => r.made_progress(),
                    Poll::Pending => break,
                }
            }
            let mut cx2 = Context::from_waker(&waker);
            let r = std::panic::catch_unwind(std::panic::AssertUnwindSafe(|| fut.as_mut().poll(&mut cx2)));
            let progressed = !tokio::task::coop::has_budget_remaining();
            Poll::Ready((r, progressed))
        }));
        crate::world::set_quiet_panics(false);
        match res {
            Ok(Poll::Ready(())) => {
                self.conns[i].life = Life::Finished;
                self.drain(i);
                StepOut::Finished
            }
            Ok(Poll::Pending) => {
                self.conns[i].fut = Some(fut);
                self.drain(i);
                if progressed {
                    StepOut::Progress
                } else {
                    StepOut::NoProgress
                }
            }
            Err(_) => {
                let msg = crate::world::take_last_panic().unwrap_or_else(|| "<panic>".into());
                crate::world::set_quiet_panics(true);
                let _ = std::panic::catch_unwind(std::panic::AssertUnwindSafe(move || drop(fut)));
                crate::world::set_quiet_panics(false);
                self.conns[i].life = Life::Panicked(msg);
                StepOut::Panicked
            }
        }
    }
}

#[derive(Clone, Debug)]
pub struct Burst {
    pub name: String,
    pub cfg: Cfg,
    pub slots: usize,
    /// (slot, nick, user) registered sequentially before the burst
    pub users: Vec<(usize, String, String)>,
    /// slots that are connected but not registered before the burst
    pub fresh: Vec<usize>,
    pub prelude: Vec<(usize, String)>,
    /// the concurrent part: per connection its commands in order
    pub lines: Vec<(usize, Vec<String>)>,
    pub max_schedules: u64,
    /// partial-order reduction: a step that touches only the connection's own
    /// socket (reading its next line; the flush after its handler returned)
    /// commutes with every step of every other connection, so where one is
    /// enabled it is taken without branching
    pub reduce: bool,
}

#[derive(Clone, Copy, Debug, PartialEq, Eq, Hash, PartialOrd, Ord)]
pub enum Action {
    /// give connection i its next socket line
    Socket(usize),
    /// let connection i handle its pending KILL notice
    Kill(usize),
    /// continue connection i mid-command
    Continue(usize),
}

impl Action {
    fn conn(&self) -> usize {
        match self {
            Action::Socket(i) | Action::Kill(i) | Action::Continue(i) => *i,
        }
    }
}

#[derive(Clone, Copy, Debug, PartialEq, Eq)]
enum Run {
    AtGate,
    Running,
    Blocked,
    Done,
}

pub struct Point {
    pub enabled: Vec<Action>,
    pub chosen: usize,
    /// index 0 of `enabled` is the previously running connection, still enabled
    pub running_first: bool,
}

#[derive(Clone, Debug, PartialEq, Eq, Hash, PartialOrd, Ord)]
pub struct Outcome {
    /// canonical final state
    pub state: u128,
    /// per connection: (registered nick or "-", closed?, per source prefix the ordered lines)
    pub conns: Vec<(String, bool, Vec<(String, Vec<String>)>)>,
}

pub struct RunResult {
    pub points: Vec<Point>,
    pub outcome: Option<Outcome>,
    pub problem: Option<(String, String)>,
    pub steps: usize,
    pub readable: Vec<String>,
}

fn build(b: &Burst) -> Result<World, MachineryError> {
    let mut w = World::new(b.cfg.main_config(), b.slots);
    for (s, n, u) in &b.users {
        w.register(*s, n, u)?;
    }
    for s in &b.fresh {
        w.connect(*s)?;
    }
    for (s, l) in &b.prelude {
        w.send(*s, l)?;
    }
    w.take_all();
    Ok(w)
}

/// Canonical outcome of a finished run (after queues were drained).
fn outcome_of(b: &Burst, w: &mut World) -> Outcome {
    let server = b.cfg.name.clone().unwrap_or_else(|| "irc.irc".into());
    let snap = masked(&w.snapshot());
    let mut conns = vec![];
    for i in 0..w.slots() {
        let info = w.info(i);
        let nick = match (&info, w.conns[i].life == Life::Live) {
            (Some(inf), true) if inf.authenticated => inf.nick.clone().unwrap_or_default(),
            _ => "-".to_string(),
        };
        let closed = w.conns[i].life != Life::Live;
        let lines = w.take_lines(i);
        let mut by_src: BTreeMap<String, Vec<String>> = BTreeMap::new();
        for l in &lines {
            let src = tokenize(l).ok().and_then(|m| m.prefix).unwrap_or_default();
            // replies: keyed by the server prefix; relays: keyed by the sender's nick
            let key = if src == server { server.clone() } else { src.split('!').next().unwrap_or("").to_string() };
            by_src.entry(key).or_default().push(canon_line(&server, l));
        }
        // the copies one command sends to one receiver (a channel copy and a direct copy,
        // two channels) leave the handler in hash order: a sender that issues a single
        // command in the burst has no order between commands to keep
        for (key, v) in by_src.iter_mut() {
            if *key == server {
                continue;
            }
            let cmds = b.users.iter().find(|(_, n, _)| n == key).map(|(s, _, _)| b.lines.iter().filter(|(ls, _)| ls == s).map(|(_, l)| l.len()).sum::<usize>());
            if cmds == Some(1) {
                v.sort();
            }
        }
        conns.push((nick, closed, by_src.into_iter().collect()));
    }
    Outcome { state: hash128(&snap), conns }
}

/// Execute the burst under the schedule `choices` (then default choices) and
/// record every scheduling point.
pub fn run_schedule(b: &Burst, choices: &[u16], want_readable: bool) -> RunResult {
    let mut rr = RunResult { points: vec![], outcome: None, problem: None, steps: 0, readable: vec![] };
    let mut w = match build(b) {
        Ok(w) => w,
        Err(e) => {
            rr.problem = Some(("machinery".into(), format!("prelude: {}", e.0)));
            return rr;
        }
    };
    let n = w.slots();
    let flags: Vec<Arc<WakeFlag>> = (0..n).map(|_| Arc::new(WakeFlag(AtomicBool::new(false)))).collect();
    let mut run: Vec<Run> = (0..n).map(|i| if w.conns[i].is_live() { Run::AtGate } else { Run::Done }).collect();
    // the burst's lines are in flight: a line becomes readable only at the
    // step that hands it to its connection (so that no other select! branch of
    // that connection can race with an early look at the socket)
    let mut pending: Vec<std::collections::VecDeque<String>> = vec![std::collections::VecDeque::new(); n];
    for (s, ls) in &b.lines {
        for l in ls {
            pending[*s].push_back(l.clone());
        }
    }
    let mut last: Option<usize> = None;
    let mut k = 0usize;
    loop {
        // enabled actions, canonical order: the running connection first, then by slot
        let mut enabled: Vec<Action> = vec![];
        for i in 0..n {
            match run[i] {
                Run::Done => {}
                Run::AtGate => {
                    if !w.conns[i].is_live() {
                        continue;
                    }
                    if !pending[i].is_empty() {
                        enabled.push(Action::Socket(i));
                    }
                    // refresh info to see a pending KILL notice
                    if let Some(inf) = w.info(i) {
                        if inf.kill_pending {
                            enabled.push(Action::Kill(i));
                        }
                    }
                }
                Run::Running => enabled.push(Action::Continue(i)),
                Run::Blocked => {
                    if flags[i].0.swap(false, Ordering::SeqCst) {
                        run[i] = Run::Running;
                        enabled.push(Action::Continue(i));
                    }
                }
            }
        }
        if enabled.is_empty() {
            let stuck: Vec<usize> = (0..n).filter(|i| matches!(run[*i], Run::Blocked | Run::Running)).collect();
            if !stuck.is_empty() {
                rr.problem = Some(("deadlock".into(), format!("connections {:?} are blocked forever (no enabled step)", stuck)));
                return rr;
            }
            break;
        }
        if b.reduce {
            // a purely local step forms a singleton persistent set
            let local = enabled.iter().position(|a| match a {
                Action::Socket(i) => !enabled.contains(&Action::Kill(*i)),
                // after its last command a quitting connection goes on to the
                // teardown (a lock step), which the flush flag cannot tell apart
                Action::Continue(i) => verif::flushing(*i) && !verif::conn_info(*i).map_or(true, |inf| inf.quit),
                Action::Kill(_) => false,
            });
            if let Some(p) = local {
                let a = enabled[p];
                enabled = vec![a];
            }
        }
        let mut running_first = false;
        if let Some(l) = last {
            if let Some(pos) = enabled.iter().position(|a| a.conn() == l) {
                let a = enabled.remove(pos);
                enabled.insert(0, a);
                running_first = true;
            }
        }
        let chosen = if k < choices.len() {
            let c = choices[k] as usize;
            if c >= enabled.len() {
                rr.problem = Some(("machinery".into(), format!("replay divergence: choice {} out of range {} at step {}", c, enabled.len(), k)));
                return rr;
            }
            c
        } else {
            0
        };
        let act = enabled[chosen];
        rr.points.push(Point { enabled: enabled.clone(), chosen, running_first });
        k += 1;
        let i = act.conn();
        match act {
            Action::Socket(_) => {
                let line = pending[i].pop_front().unwrap();
                w.write_line(i, &line);
                if w.conns[i].avail > 0 {
                    w.conns[i].avail -= 1;
                }
                verif::select(w.ctl);
                verif::direct(i, Directive::Socket);
            }
            Action::Kill(_) => {
                verif::select(w.ctl);
                verif::direct(i, Directive::Kill);
            }
            Action::Continue(_) => {}
        }
        let out = w.step_conn(i, &flags[i]);
        rr.steps += 1;
        if want_readable {
            rr.readable.push(format!("{:?} -> {:?}", act, out));
        }
        verif::select(w.ctl);
        let yielded = verif::take_yielded();
        match out {
            StepOut::Finished => run[i] = Run::Done,
            StepOut::Panicked => {
                let msg = match &w.conns[i].life {
                    Life::Panicked(m) => m.clone(),
                    _ => String::new(),
                };
                rr.problem = Some(("panic".into(), format!("connection task {} aborted: {}", i, msg)));
                return rr;
            }
            StepOut::Progress => {
                run[i] = if verif::at_gate(i) { Run::AtGate } else { Run::Running };
            }
            StepOut::NoProgress => {
                if verif::at_gate(i) {
                    run[i] = Run::AtGate;
                } else if yielded {
                    run[i] = Run::Running;
                } else {
                    run[i] = Run::Blocked;
                }
            }
        }
        last = Some(i);
        if rr.steps > 5000 {
            rr.problem = Some(("livelock".into(), "more than 5000 steps in one burst".into()));
            return rr;
        }
    }
    // quiescence: forward queued relays etc. sequentially (commutes with everything)
    if let Err(e) = w.settle() {
        rr.problem = Some(("stalled".into(), e.0));
        return rr;
    }
    for (i, c) in w.conns.iter().enumerate() {
        if let Life::Panicked(m) = &c.life {
            rr.problem = Some(("panic".into(), format!("connection task {} aborted: {}", i, m)));
            return rr;
        }
    }
    let inv = spec::rep_invariants(&w.snapshot());
    if let Some((name, msg)) = inv.first() {
        rr.problem = Some((format!("inv:{}", name), msg.clone()));
        return rr;
    }
    // convergence: in any one-at-a-time order the last TOPIC announcement a member has
    // seen for a channel is the topic the channel ends up with
    {
        let server = b.cfg.name.clone().unwrap_or_else(|| "irc.irc".into());
        let snap = w.snapshot();
        let m = spec::M::from_snapshot(&snap);
        for i in 0..n {
            if !w.conns[i].is_live() {
                continue;
            }
            w.drain(i);
            let nick = match w.info(i) {
                Some(inf) if inf.authenticated => inf.nick.clone().unwrap_or_default(),
                _ => continue,
            };
            let lines = w.conns[i].lines.clone();
            for (chn, ch) in &m.chans {
                if !ch.members.contains_key(&nick) {
                    continue;
                }
                let last = lines.iter().rev().filter_map(|l| tokenize(l).ok()).find(|t| t.prefix.as_deref() != Some(server.as_str()) && t.cmd.eq_ignore_ascii_case("TOPIC") && t.params.first() == Some(chn));
                if let Some(t) = last {
                    let seen = t.params.get(1).cloned().unwrap_or_default();
                    let fin = ch.topic.as_ref().map(|x| x.0.clone()).unwrap_or_default();
                    if seen != fin {
                        rr.problem = Some(("topic-divergence".into(), format!("connection {} ({}) saw {:?} as the last TOPIC of {} but the channel's topic is {:?}", i, nick, seen, chn, fin)));
                        return rr;
                    }
                }
            }
        }
    }
    let oc = outcome_of(b, &mut w);
    // liveness round: every live connection still answers
    for i in 0..n {
        if w.conns[i].is_live() && !w.conns[i].client_closed {
            w.take_lines(i);
            match w.send(i, "PING liveness") {
                Err(e) => {
                    rr.problem = Some(("stalled".into(), format!("connection {} after the burst: {}", i, e.0)));
                    return rr;
                }
                Ok(()) => {
                    let ls = w.take_lines(i);
                    if w.conns[i].is_live() && !ls.iter().any(|l| l.contains("PONG") || l.contains(" 451 ")) {
                        rr.problem = Some(("unserved".into(), format!("connection {} got no answer after the burst: {:?}", i, ls)));
                        return rr;
                    }
                }
            }
        }
    }
    rr.outcome = Some(oc);
    rr
}

/// All sequential executions: every interleaving at command granularity that
/// respects each connection's own order, each command run to completion.
pub fn sequential_outcomes(b: &Burst) -> Result<BTreeSet<Outcome>, String> {
    let mut outs = BTreeSet::new();
    let total: usize = b.lines.iter().map(|x| x.1.len()).sum();
    let mut idx = vec![0usize; b.lines.len()];
    let mut order: Vec<usize> = vec![];
    fn rec(b: &Burst, idx: &mut Vec<usize>, order: &mut Vec<usize>, total: usize, outs: &mut BTreeSet<Outcome>) -> Result<(), String> {
        if order.len() == total {
            let mut w = build(b).map_err(|e| e.0)?;
            let mut pos = vec![0usize; b.lines.len()];
            for &c in order.iter() {
                let (slot, ls) = &b.lines[c];
                let line = &ls[pos[c]];
                pos[c] += 1;
                if !w.conns[*slot].is_live() {
                    continue;
                }
                w.write_line(*slot, line);
                // a pending KILL notice may be handled before or after the line in a
                // concurrent run; sequentially the line is read first only if the
                // notice has not arrived, which `pump_socket` reflects
                w.pump_socket(*slot).map_err(|e| e.0)?;
                // other connections handle KILL notices at once in a sequential run
                for j in 0..w.slots() {
                    if let Some(inf) = w.info(j) {
                        if inf.kill_pending {
                            w.run_directive(j, Directive::Kill).map_err(|e| e.0)?;
                        }
                    }
                }
            }
            w.settle().map_err(|e| e.0)?;
            outs.insert(outcome_of(b, &mut w));
            return Ok(());
        }
        for c in 0..b.lines.len() {
            if idx[c] < b.lines[c].1.len() {
                idx[c] += 1;
                order.push(c);
                rec(b, idx, order, total, outs)?;
                order.pop();
                idx[c] -= 1;
            }
        }
        Ok(())
    }
    rec(b, &mut idx, &mut order, total, &mut outs)?;
    Ok(outs)
}

pub struct DfsOut {
    pub schedules: u64,
    pub steps: u64,
    pub max_steps: usize,
    pub outcomes: BTreeSet<Outcome>,
    pub sequential: usize,
    pub violations: Vec<(String, String, Vec<u16>, Vec<String>)>,
    pub machinery: Option<String>,
    pub bound: Option<usize>,
    pub complete: bool,
}

/// Stateless DFS over schedules by re-execution, in parallel, with an optional
/// preemption bound.
pub fn explore(b: &Burst, bound: Option<usize>, threads: usize) -> DfsOut {
    let seq = match sequential_outcomes(b) {
        Ok(s) => s,
        Err(e) => {
            return DfsOut { schedules: 0, steps: 0, max_steps: 0, outcomes: BTreeSet::new(), sequential: 0, violations: vec![], machinery: Some(format!("sequential reference failed: {}", e)), bound, complete: false }
        }
    };
    let stack: Mutex<Vec<(Vec<u16>, usize)>> = Mutex::new(vec![(vec![], 0)]);
    let active = std::sync::atomic::AtomicUsize::new(0);
    let schedules = AtomicU64::new(0);
    let steps = AtomicU64::new(0);
    let max_steps = std::sync::atomic::AtomicUsize::new(0);
    let outcomes: Mutex<BTreeSet<Outcome>> = Mutex::new(BTreeSet::new());
    let violations: Mutex<Vec<(String, String, Vec<u16>, Vec<String>)>> = Mutex::new(vec![]);
    let machinery: Mutex<Option<String>> = Mutex::new(None);
    let capped = AtomicBool::new(false);
    std::thread::scope(|s| {
        for _ in 0..threads.max(1) {
            s.spawn(|| loop {
                let item = {
                    let mut st = stack.lock().unwrap();
                    match st.pop() {
                        Some(x) => {
                            active.fetch_add(1, Ordering::SeqCst);
                            Some(x)
                        }
                        None => None,
                    }
                };
                let (prefix, pre_cost) = match item {
                    Some(x) => x,
                    None => {
                        if active.load(Ordering::SeqCst) == 0 {
                            break;
                        }
                        std::thread::yield_now();
                        continue;
                    }
                };
                if schedules.load(Ordering::SeqCst) >= b.max_schedules || violations.lock().unwrap().len() > 20 || machinery.lock().unwrap().is_some() {
                    capped.store(true, Ordering::SeqCst);
                    active.fetch_sub(1, Ordering::SeqCst);
                    continue;
                }
                let rr = run_schedule(b, &prefix, false);
                schedules.fetch_add(1, Ordering::SeqCst);
                steps.fetch_add(rr.steps as u64, Ordering::SeqCst);
                max_steps.fetch_max(rr.steps, Ordering::SeqCst);
                let full: Vec<u16> = rr.points.iter().map(|p| p.chosen as u16).collect();
                match (&rr.problem, &rr.outcome) {
                    (Some((kind, msg)), _) => {
                        if kind == "machinery" {
                            *machinery.lock().unwrap() = Some(msg.clone());
                        } else {
                            let readable = run_schedule(b, &full, true).readable;
                            violations.lock().unwrap().push((kind.clone(), msg.clone(), full.clone(), readable));
                        }
                    }
                    (None, Some(oc)) => {
                        if !seq.contains(oc) {
                            let readable = run_schedule(b, &full, true).readable;
                            let detail = describe_nonlinearizable(oc, &seq);
                            violations.lock().unwrap().push(("not-linearizable".into(), detail, full.clone(), readable));
                        }
                        outcomes.lock().unwrap().insert(oc.clone());
                    }
                    _ => {}
                }
                // children: deviate at every point after the prefix
                let mut cost = pre_cost;
                let mut children = vec![];
                for (i, p) in rr.points.iter().enumerate() {
                    if i >= prefix.len() {
                        for alt in 0..p.enabled.len() {
                            if alt == p.chosen {
                                continue;
                            }
                            let extra = if p.running_first && alt != 0 { 1 } else { 0 };
                            if let Some(bd) = bound {
                                if cost + extra > bd {
                                    continue;
                                }
                            }
                            let mut c: Vec<u16> = full[..i].to_vec();
                            c.push(alt as u16);
                            children.push((c, cost + extra));
                        }
                    }
                    // cost of the choice actually taken at this point
                    if p.running_first && p.chosen != 0 {
                        cost += 1;
                    }
                }
                if !children.is_empty() {
                    stack.lock().unwrap().extend(children);
                }
                active.fetch_sub(1, Ordering::SeqCst);
            });
        }
    });
    let m = machinery.into_inner().unwrap();
    DfsOut {
        schedules: schedules.load(Ordering::SeqCst),
        steps: steps.load(Ordering::SeqCst),
        max_steps: max_steps.load(Ordering::SeqCst),
        outcomes: outcomes.into_inner().unwrap(),
        sequential: seq.len(),
        violations: violations.into_inner().unwrap(),
        machinery: m,
        bound,
        complete: !capped.load(Ordering::SeqCst),
    }
}

fn describe_nonlinearizable(oc: &Outcome, seq: &BTreeSet<Outcome>) -> String {
    // find the closest sequential outcome and show the first difference
    let mut best: Option<(usize, String)> = None;
    for s in seq {
        let mut diffs = vec![];
        if s.state != oc.state {
            diffs.push("final server state differs".to_string());
        }
        for (i, (a, b)) in oc.conns.iter().zip(s.conns.iter()).enumerate() {
            if a != b {
                diffs.push(format!("connection {}: concurrent {:?} vs sequential {:?}", i, a, b));
            }
        }
        let score = diffs.len();
        if best.as_ref().map_or(true, |x| score < x.0) {
            best = Some((score, diffs.join(" ; ")));
        }
    }
    format!(
        "the outcome of this schedule equals none of the {} sequential outcomes; nearest: {}",
        seq.len(),
        best.map(|x| x.1).unwrap_or_default().chars().take(1500).collect::<String>()
    )
}
