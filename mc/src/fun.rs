//! E-FUN: bounded-exhaustive enumeration of finite input spaces, in parallel.

use std::sync::atomic::{AtomicU64, Ordering};

/// Number of strings of length 0..=max over an alphabet of k symbols.
pub fn count_strings(k: u64, max: u32) -> u64 {
    (0..=max).map(|l| k.pow(l)).sum()
}

/// The idx-th string (shortlex order) over `alpha` (chars), lengths 0..=max.
pub fn nth_string(alpha: &[char], max: u32, mut idx: u64) -> String {
    let k = alpha.len() as u64;
    let mut len = 0u32;
    loop {
        let c = k.pow(len);
        if idx < c {
            break;
        }
        idx -= c;
        len += 1;
        assert!(len <= max);
    }
    let mut v = vec![' '; len as usize];
    for i in (0..len as usize).rev() {
        v[i] = alpha[(idx % k) as usize];
        idx /= k;
    }
    v.into_iter().collect()
}

pub fn all_strings(alpha: &[char], max: u32) -> Vec<String> {
    let n = count_strings(alpha.len() as u64, max);
    (0..n).map(|i| nth_string(alpha, max, i)).collect()
}

/// Run `f` over 0..n in parallel chunks; results are returned in chunk order.
pub fn par_ranges<R: Send>(n: u64, threads: usize, chunk: u64, f: impl Fn(u64, u64) -> R + Sync) -> Vec<R> {
    let next = AtomicU64::new(0);
    let out: std::sync::Mutex<Vec<(u64, R)>> = std::sync::Mutex::new(vec![]);
    std::thread::scope(|s| {
        for _ in 0..threads.max(1) {
            s.spawn(|| loop {
                let st = next.fetch_add(chunk, Ordering::SeqCst);
                if st >= n {
                    break;
                }
                let en = (st + chunk).min(n);
                let r = f(st, en);
                out.lock().unwrap().push((st, r));
            });
        }
    });
    let mut v = out.into_inner().unwrap();
    v.sort_by_key(|x| x.0);
    v.into_iter().map(|x| x.1).collect()
}
