// Generates the list of the repository's top-level modules from /repo/src/main.rs,
// so that a refactoring which adds, renames or removes a top-level module does not
// break the harness build (the checks must rebuild from /repo's working tree).
use std::{env, fs, path::Path};

fn main() {
    let repo = env::var("VERIF_REPO_SRC").unwrap_or_else(|_| "/repo/src".into());
    let main_rs = fs::read_to_string(format!("{}/main.rs", repo)).expect("read /repo/src/main.rs");
    let mut out = String::new();
    let mut mods = vec![];
    for line in main_rs.lines() {
        let l = line.trim();
        if let Some(rest) = l.strip_prefix("mod ").or_else(|| l.strip_prefix("pub mod ")).or_else(|| l.strip_prefix("pub(crate) mod ")) {
            if let Some(name) = rest.strip_suffix(';') {
                let name = name.trim();
                let file = format!("{}/{}.rs", repo, name);
                let dir = format!("{}/{}/mod.rs", repo, name);
                let path = if Path::new(&file).exists() { file } else { dir };
                out.push_str(&format!("#[path = \"{}\"]\nmod {};\n", path, name));
                mods.push(name.to_string());
            }
        }
    }
    for line in main_rs.lines() {
        let l = line.trim();
        if let Some(rest) = l.strip_prefix("use ") {
            let head = rest.split("::").next().unwrap_or("");
            if mods.iter().any(|m| m == head) {
                out.push_str(&format!("#[allow(unused_imports)]\nuse {}\n", rest));
            }
        }
    }
    let dest = Path::new(&env::var("OUT_DIR").unwrap()).join("repo_mods.rs");
    fs::write(dest, out).unwrap();
    println!("cargo:rerun-if-changed={}/main.rs", repo);
    println!("cargo:rerun-if-changed={}", repo);
    println!("cargo:rerun-if-changed=build.rs");
    println!("cargo:rerun-if-env-changed=VERIF_REPO_SRC");
}
